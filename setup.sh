#!/bin/sh
# Nothing to build: verify the interpreter, the repo's dependencies and the harness import.
cd "$(dirname "$0")" || exit 2
PYTHONHASHSEED=0 /venv/bin/python - <<'PY'
import sys
sys.path.insert(0, '.')
from qsim import boot
boot.boot()
import pandas, numpy
from qsim import batch
print("setup ok: python", sys.version.split()[0], "pandas", pandas.__version__, "numpy", numpy.__version__,
      "qstrader", boot.qstrader_file())
PY

#!/venv/bin/python
"""Regenerate /verif/MANIFEST.json.  BUILT lists the properties whose checks exist and pass."""
import json
import os

HERE = os.path.dirname(os.path.dirname(os.path.abspath(__file__)))

TECH = ("deterministic simulation with fault injection: seeded search over generated operation/fault plans and "
        "host-process states, each run in its own child process")

CHECKS = {
    "C01": dict(
        cat="exploration", ref="DESIGN.md section 4 C01",
        text="Seeded deterministic simulation of the real broker/portfolio stack under a generated interleaving of "
             "transfers, orders, quote moves, clock ticks and refused requests; after every operation every cash "
             "balance, the account totals and the history rows are compared with an exact-arithmetic ledger model. "
             "Sampling over histories, not proof.",
        note="Trusted: the Fraction ledger model, the QuoteBook stub, rule-1/2 float tolerances (DESIGN section 3). "
             "Bounds: <=6 portfolios, <=8 assets (now and then books of 17..260), <=240 ops per run; host-process states "
             "(logging, time zone, warnings filter, numpy error state, decimal context, pandas options, assert stripping) "
             "are drawn per run.",
        tech=TECH + "; exact-arithmetic ledger reference model checked after every operation"),
    "C02": dict(
        cat="exploration", ref="DESIGN.md section 4 C02",
        text="Same simulated histories; after every operation holdings, quantities, market values and equity of every "
             "portfolio are compared with the net of the captured fills and the latest price seen (fill or mark).",
        note="Trusted: ledger model; fills captured at the portfolio seam by instance wrapping. Same bounds as C01.",
        tech=TECH + "; ledger reference model for holdings and marks"),
    "C03": dict(
        cat="exploration", ref="DESIGN.md section 4 C03",
        text="Same simulated histories; per open position the P&L identities are evaluated in exact arithmetic on the "
             "fills since the position was opened, and re-marking must leave realised P&L and quantity bit-identical. "
             "A free-standing Position is also driven through exactly-flat, flipped and re-opened states directly. "
             "Reach over sign-pattern paths (<=4 fills) is measured in the evidence. The 'all reals' half of the "
             "quantifier is a proof obligation that simulation only samples.",
        note="Trusted: ledger model, tolerance 1e-9 x gross consideration. Sampling only.",
        tech=TECH + "; P&L identities checked against the recorded fill history of each position"),
    "C04": dict(
        cat="exploration", ref="DESIGN.md section 4 C04",
        text="Bursts of submissions interleaved with clock ticks at adversarial instants (14:30:00, 20:59:59, 21:00:00, "
             "weekends, duplicates); the fills captured in each update are compared with the documented rule "
             "(all pending, in full, once, sells first - per portfolio and across portfolios - submission order; nothing "
             "outside exchange hours), including "
             "bounded liveness: every pending order fills at the first in-hours update.",
        note="Trusted: reference exchange hours (pure integer calendar), pending-queue model. Domain kept: every asset "
             "always has a quote.",
        tech=TECH + "; schedule search over tick instants with a reference exchange calendar and queue model"),
    "C05": dict(
        cat="exploration", ref="DESIGN.md section 4 C05",
        text="Every captured fill is compared with the scripted quote valid at that update (ask for buys, bid for sells, "
             "bid != ask always), the update time and the fee model applied to the rounded consideration.",
        note="Trusted: QuoteBook stub (the only component that can tell bid from ask), rule 4 for .5 ties.",
        tech=TECH + "; scripted bid/ask stub as the price oracle"),
    "C15": dict(
        cat="fault_enumeration", ref="DESIGN.md section 4 C15",
        text="Every kind of refused request (negative amounts, overdraws, unknown/duplicate ids, bad currency, "
             "constructor faults, early timestamps, bad marks, regressing clock) is injected at random points of live "
             "histories with pending orders and open positions; the listed state is snapshotted before and after and "
             "must be bit-identical, the error type must be the documented one, and the run continues afterwards.",
        note="Trusted: the snapshot covers exactly the state the property lists (rule 7); documented error types "
             "from docstrings and unit tests (rule 5).",
        tech=TECH + "; fault injection of every refused-request kind with before/after state snapshots"),
    "C06": dict(
        cat="fault_enumeration", ref="DESIGN.md section 4 C06",
        text="Synthetic CSV bar files with injected data faults (shuffled rows, gaps, empty cells, late starts, "
             "adjusted/unadjusted) are queried through the real data source and handler at adversarial instants in "
             "random order with cache clears; answers are compared with a literal point-in-time reference model and, "
             "independently, with a re-load of the file truncated after the query day.",
        note="Trusted: the reference price model; 4-decimal prices so that CSV parsing is exact; the ambiguous "
             "Close-empty/Adj-present combination under adjustment is not generated.",
        tech=TECH + "; data-fault enumeration on synthetic CSV files, reference model + truncation metamorphic oracle"),
    "C07": dict(
        cat="fault_enumeration", ref="DESIGN.md section 4 C07",
        text="Pairs of full backtests that share every row up to a cut day T and differ arbitrarily (rewritten, "
             "NaN, extra or removed rows/files) afterwards; everything dated <= T must be bit-identical and failures "
             "at or before T must be identical.",
        note="Trusted: the pair construction (rows <= T byte-identical in both worlds).",
        tech=TECH + "; paired-world simulation with future-rewrite faults (causality as a two-run relation)"),
    "C08": dict(
        cat="exploration", ref="DESIGN.md section 4 C08",
        text="Full sessions with fixed-weight alpha over random markets/schedules/fees/sizing modes are compared, fill by "
             "fill and equity point by equity point, with an independent ~200-line reference backtester that applies "
             "the documented rules.",
        note="Trusted: the reference backtester, price model and calendar; rule 3 at integer boundaries.",
        tech=TECH + "; refinement check of the whole session against an executable reference backtester"),
    "C09": dict(
        cat="exploration", ref="DESIGN.md section 4 C09",
        text="Successive rebalances on one broker with price moves, changing universes and scripted alpha dictionaries "
             "(subset/superset/disjoint, assets outside the universe, shorts); orders must equal target minus holdings, "
             "and after the fills holdings must equal the target; also monitored on every rebalance of session runs.",
        note="Trusted: the sizer output is taken as the target (its correctness is C10/C11).",
        tech=TECH + "; multi-step rebalance histories with an order-diff and post-fill oracle"),
    "C10": dict(
        cat="exploration", ref="DESIGN.md section 4 C10",
        text="In-run monitor on the long-only sizer: every call the simulated system makes is judged against the "
             "affordability bound, with inputs read at the call instant through the same seams.",
        note="Pure arithmetic judged only on calls made by the simulated system (REBAL and SESSION worlds); rule 3 "
             "tolerance at integer boundaries.",
        tech=TECH + "; invariant monitor on the sizer seam inside simulated rebalances"),
    "C11": dict(
        cat="exploration", ref="DESIGN.md section 4 C11",
        text="In-run monitor on the long/short sizer: sign, truncation toward zero, per-asset affordability to within "
             "one currency unit and the gross-exposure bound on every call made by the simulated system.",
        note="As C10; the weaker short-side bound is used so that either reading of the fee term passes.",
        tech=TECH + "; invariant monitor on the sizer seam inside simulated rebalances"),
    "C12": dict(
        cat="exploration", ref="DESIGN.md section 4 C12",
        text="Seeded differential sampling of the real simulation clock against an independent pure-Python calendar "
             "(state-free corner of the technique), plus the same comparison online in every session run.",
        note="Trusted: the reference calendar (datetime/calendar only, no pandas offsets).",
        tech=TECH + "; differential check of the system clock against the simulator's reference calendar"),
    "C13": dict(
        cat="exploration", ref="DESIGN.md section 4 C13",
        text="Seeded differential sampling of the four schedule classes against the reference calendar, membership of "
             "every instant in the real engine's event stream, and (in sessions) that each instant produced a rebalance.",
        note="Trusted: the reference calendar.",
        tech=TECH + "; differential check of schedules against the reference calendar and the real clock"),
    "C14": dict(
        cat="exploration", ref="DESIGN.md section 4 C14",
        text="Full sessions over random start/end/burn-in triples and schedules; PCM calls, fill instants, equity points "
             "and the allocation table are compared with the reference calendar and recomputed equity.",
        note="Trusted: reference calendar, price model, transactions captured at the portfolio seam.",
        tech=TECH + "; session runs with monitors on the PCM and portfolio seams"),
    "C16": dict(
        cat="exploration", ref="DESIGN.md section 4 C16",
        text="SIGNAL world: random interleavings of appends/updates/queries over assets and lookbacks against full-history "
             "window models; SESSION cadence monitor: one observation per asset per business day at the close.",
        note="Trusted: window models (math.fsum), reference calendar and price model.",
        tech=TECH + "; interleaved signal histories with window reference models; cadence monitor in sessions"),
    "C18": dict(
        cat="exploration", ref="DESIGN.md section 4 C18",
        text="The same configuration is run repeatedly: fresh objects, data sources that already served other sessions, "
             "cache clears, permuted directory listings and fresh interpreters under other hash seeds; digests must "
             "be equal.",
        note="Trusted: the digest covers fills (ids masked), equity and allocations bit for bit.",
        tech=TECH + "; repeated runs under perturbed hash seeds, cache histories and directory order"),
    "C19": dict(
        cat="exploration", ref="DESIGN.md section 4 C19",
        text="Sessions over dynamic universes with boundary entry dates; membership, allocations, orders and positions "
             "per asset are compared with the entry map; optimiser seam monitored in REBAL runs.",
        note="Trusted: entry-map model; optimisers judged only as called by the PCM.",
        tech=TECH + "; session runs over entry-date maps with membership monitors"),
}

NA = {
    "C17": "Performance statistics are a pure function of one equity series: no event order, clock, stored state, "
           "seam or fault is involved, so deterministic simulation with fault injection does not apply "
           "(DESIGN.md section 5).",
}

BUILT = ["C01", "C02", "C03", "C04", "C05", "C06", "C07", "C08", "C09", "C10", "C11", "C12", "C13", "C14", "C15", "C16", "C18", "C19"]


def main():
    import sys
    built = list(BUILT)
    checks = []
    for pid in sorted(built):
        c = CHECKS[pid]
        checks.append({
            "property_id": pid,
            "quick_cmd": "./check %s --tier quick" % pid,
            "thorough_cmd": "./check %s --tier thorough" % pid,
            "evidence_file": "/verif/evidence/%s.json" % pid,
            "replay_cmd_template": "./check replay {path}",
            "engine": "qsim",
            "level_claimed": {"category": c["cat"], "text": c["text"], "design_ref": c["ref"]},
            "level_note": c["note"],
            "technique": c["tech"],
        })
    na = [{"property_id": k, "reason": v} for k, v in sorted(NA.items())]
    for pid in sorted(CHECKS):
        if pid not in built:
            na.append({"property_id": pid,
                       "reason": "check designed (%s) but not built yet in this tree" % CHECKS[pid]["ref"]})
    na.sort(key=lambda x: x["property_id"])
    doc = {
        "version": 1,
        "setup_cmd": "./setup.sh",
        "hooks": {
            "guard": "QSTRADER_VERIF",
            "enable": "no hooks: monitors are attached by instance wrapping at run time, /repo is imported "
                      "unmodified (QSTRADER_REPO selects the tree, default /repo)",
            "baseline_off_cmd": "cd /repo && /venv/bin/python -m pytest -ra -q -p no:cacheprovider --timeout=900 "
                                "--continue-on-collection-errors",
            "source_commits": [],
            "add_only": True,
        },
        "engines": [{
            "name": "qsim",
            "path": "/verif/qsim",
            "serves_properties": sorted(built),
            "kind_free_text": "own deterministic simulator: seeded plan generator, discrete-event scheduler, fault "
                              "catalogue, reference models, ddmin shrinker, replay files",
        }],
        "checks": checks,
        "not_applicable": na,
        "notes": "Exit codes: 0 held, 1 VIOLATION, 2 harness error (never a verdict). Five genuine defects were found "
                 "by the checks and repaired with 'fix:' commits in /repo (known_findings.json: F1-F5, all 'fixed'). "
                 "Every run executes in its own forked child (REPEAT: a fresh interpreter); host-process state is part "
                 "of every plan and of every replay file. Sensitivity: DESIGN.md section 9.4 and mutants/RESULTS.md.",
    }
    with open(os.path.join(HERE, "MANIFEST.json"), "w") as f:
        json.dump(doc, f, indent=1)
        f.write("\n")


if __name__ == "__main__":
    main()

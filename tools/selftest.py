#!/venv/bin/python
"""Self-tests of the machinery (DESIGN 2.8).

  selftest mutants [name ...] [--props C01,C02] [--jobs N] [--budget S] [--no-tests]
      sensitivity: every mutant of mutants/defs.py (and every seeded/<id>/patch.diff) is applied to a
      scratch copy of /repo under /dev/shm, the repo's own tests must still pass there, and each owning
      quick check must exit 1 with a VIOLATION line.  The copy is deleted afterwards.
  selftest determinism [props]
      same run seeds: twice in-process, fresh interpreters under other PYTHONHASHSEEDs, 1 vs 16 workers.
  selftest schema
      MANIFEST.json and evidence/*.json against the schemas (uses python3-vt for jsonschema).
"""
import json
import os
import shutil
import subprocess
import sys
import tempfile
import time
import concurrent.futures as cf

HERE = os.path.dirname(os.path.dirname(os.path.abspath(__file__)))
sys.path.insert(0, HERE)
REPO = "/repo"
SCRATCH_BASE = "/dev/shm" if os.path.isdir("/dev/shm") else tempfile.gettempdir()


def load_mutants():
    sys.path.insert(0, os.path.join(HERE, "mutants"))
    import defs
    out = list(defs.M)
    for label, sd in (("patches", os.path.join(HERE, "mutants", "patches")), ("seeded", os.path.join(HERE, "seeded"))):
        if not os.path.isdir(sd):
            continue
        for name in sorted(os.listdir(sd)):
            meta = os.path.join(sd, name, "meta.json")
            patch = os.path.join(sd, name, "patch.diff")
            if os.path.exists(meta) and os.path.exists(patch):
                with open(meta) as f:
                    md = json.load(f)
                out.append({"name": label + "/" + name, "props": md.get("caught_by") or [md["property"]],
                            "patch": patch, "note": md.get("needs", ""), "expect": md.get("expect", "catch")})
    return out


def make_scratch(mut):
    d = tempfile.mkdtemp(prefix="qsim-mut-", dir=SCRATCH_BASE)
    for item in ("qstrader", "tests", "pyproject.toml", "README.md"):
        src = os.path.join(REPO, item)
        dst = os.path.join(d, item)
        if os.path.isdir(src):
            shutil.copytree(src, dst, ignore=shutil.ignore_patterns("__pycache__", "*.pyc"))
        elif os.path.exists(src):
            shutil.copy(src, dst)
    if "patch" in mut:
        r = subprocess.run(["git", "apply", "--unsafe-paths", "--directory=" + d, mut["patch"]],
                           cwd=d, capture_output=True, text=True)
        if r.returncode != 0:
            r = subprocess.run(["patch", "-p1", "-i", mut["patch"]], cwd=d, capture_output=True, text=True)
            if r.returncode != 0:
                shutil.rmtree(d, ignore_errors=True)
                raise RuntimeError("patch does not apply: %s %s" % (mut["name"], r.stderr + r.stdout))
    else:
        for (file_, old_, new_) in [(mut["file"], mut["old"], mut["new"])] + [tuple(x) for x in mut.get("more", [])]:
            path = os.path.join(d, file_)
            with open(path) as f:
                s = f.read()
            if s.count(old_) != 1:
                shutil.rmtree(d, ignore_errors=True)
                raise RuntimeError("mutant %s: pattern occurs %d times in %s" % (mut["name"], s.count(old_), file_))
            with open(path, "w") as f:
                f.write(s.replace(old_, new_))
    return d


def run_repo_tests(d):
    env = dict(os.environ)
    env["PYTHONPATH"] = d
    env["PYTHONDONTWRITEBYTECODE"] = "1"
    r = subprocess.run(["/venv/bin/python", "-m", "pytest", "-q", "-x", "-p", "no:cacheprovider", "tests"],
                       cwd=d, env=env, capture_output=True, text=True, timeout=900)
    tail = (r.stdout.strip().splitlines() or [""])[-1]
    return r.returncode == 0, tail


def run_check_on(d, prop, budget):
    env = dict(os.environ)
    env["QSTRADER_REPO"] = d
    env["VERIF_EVIDENCE_DIR"] = os.path.join(d, "_evidence")
    env["VERIF_REPLAY_DIR"] = os.path.join(d, "_replays")
    env["PYTHONDONTWRITEBYTECODE"] = "1"
    if budget:
        env["VERIF_BUDGET_S"] = str(budget)
    t0 = time.time()
    r = subprocess.run([os.path.join(HERE, "check"), prop, "--tier", "quick"], cwd=HERE, env=env,
                       capture_output=True, text=True, timeout=1800)
    viol = [l for l in r.stdout.splitlines() if l.startswith("VIOLATION")]
    detail = [l.strip() for l in r.stdout.splitlines() if l.strip().startswith("oracle=")]
    return r.returncode, viol, detail, time.time() - t0, r.stdout[-1500:] + r.stderr[-1500:]


def one_mutant(args):
    mut, budget, do_tests, only_props = args
    res = {"name": mut["name"], "props": {}, "tests_pass": None, "note": mut.get("note", ""),
           "expect": mut.get("expect", "catch")}
    try:
        d = make_scratch(mut)
    except Exception as e:
        res["error"] = str(e)
        return res
    try:
        if do_tests:
            ok, tail = run_repo_tests(d)
            res["tests_pass"] = ok
            res["tests_tail"] = tail
        for prop in mut["props"]:
            if only_props and prop not in only_props:
                continue
            code, viol, detail, wall, out = run_check_on(d, prop, budget)
            res["props"][prop] = {"exit": code, "violations": len(viol),
                                  "oracle": (detail[0][:300] if detail else ""), "wall": round(wall, 1)}
            if code not in (0, 1):
                res["props"][prop]["out"] = out
    finally:
        shutil.rmtree(d, ignore_errors=True)
    return res


def cmd_mutants(argv):
    names = [a for a in argv if not a.startswith("--")]
    budget = None
    jobs = 2
    do_tests = "--no-tests" not in argv
    only_props = None
    for a in argv:
        if a.startswith("--budget="):
            budget = float(a.split("=")[1])
        if a.startswith("--jobs="):
            jobs = int(a.split("=")[1])
        if a.startswith("--props="):
            only_props = set(a.split("=")[1].split(","))
    muts = load_mutants()
    if names:
        muts = [m for m in muts if any(n in m["name"] for n in names)]
    if only_props:
        muts = [m for m in muts if set(m["props"]) & only_props]
    results = []
    with cf.ThreadPoolExecutor(max_workers=jobs) as ex:
        for res in ex.map(one_mutant, [(m, budget, do_tests, only_props) for m in muts]):
            results.append(res)
            line = "%-55s tests=%s " % (res["name"], res.get("tests_pass"))
            if "error" in res:
                line += "ERROR " + res["error"]
            for p, r in res["props"].items():
                line += " %s:%s(%ss)" % (p, "CAUGHT" if r["exit"] == 1 else (("EXPECTED-MISS" if res.get("expect") == "miss" else "MISSED") if r["exit"] == 0 else "ERR%d" % r["exit"]), r["wall"])
                if r["exit"] == 1:
                    line += " [" + r["oracle"].split(" ")[0] + "]"
            print(line, flush=True)
    bad = 0
    n_tests_fail = 0
    for res in results:
        if "error" in res:
            bad += 1
        if res.get("tests_pass") is False:
            n_tests_fail += 1      # informational: the repo's own tests already notice this change
        want = 0 if res.get("expect") == "miss" else 1
        for p, r in res["props"].items():
            if r["exit"] != want:
                bad += 1
                if "out" in r:
                    print("---- %s %s\n%s" % (res["name"], p, r["out"]))
    print("(%d changes are also noticed by the repo's own tests)" % n_tests_fail)
    out = os.path.join(HERE, "mutants", "last_results.json")
    if not names and not only_props:
        with open(out, "w") as f:
            json.dump(results, f, indent=1, sort_keys=True)
    elif "--merge" in argv and os.path.exists(out):
        # re-run of some changes after a fix: replace their rows in the stored table of the last full run
        with open(out) as f:
            stored = json.load(f)
        by_name = dict((r["name"], r) for r in results)
        stored = [by_name.pop(r["name"], r) for r in stored] + list(by_name.values())
        with open(out, "w") as f:
            json.dump(stored, f, indent=1, sort_keys=True)
        print("merged %d row(s) into %s" % (len(results), out))
    print("mutants: %d run, %d problems" % (len(results), bad))
    return 1 if bad else 0


def cmd_schema(argv):
    code = r'''
import json, glob, jsonschema, sys
m = json.load(open("/verif/MANIFEST.json"))
jsonschema.validate(m, json.load(open("/root/.vp/MANIFEST.schema.json")))
es = json.load(open("/root/.vp/EVIDENCE.schema.json"))
ids = set()
for c in m["checks"]:
    ids.add(c["property_id"])
    f = c["evidence_file"]
    jsonschema.validate(json.load(open(f)), es)
props = [json.loads(l)["id"] for l in open("/verif/properties.jsonl")]
na = set(x["property_id"] for x in m.get("not_applicable", []))
assert ids | na == set(props), (sorted(set(props) - ids - na))
assert not (ids & na)
print("schema ok: %d checks, %d not applicable" % (len(ids), len(na)))
'''
    r = subprocess.run(["python3-vt", "-c", code])
    return r.returncode


def cmd_determinism(argv):
    """Same seeds: 1 worker vs 16 workers, and three hash seeds, whole quick batches with a fixed run count."""
    props = [a for a in argv if not a.startswith("--")] or ["C01"]
    bad = 0
    for prop in props:
        outs = []
        for hs, workers in (("0", "16"), ("0", "1"), ("123", "16"), ("99991", "3")):
            env = dict(os.environ)
            env["PYTHONHASHSEED"] = hs
            env["VERIF_WORKERS"] = workers
            code = ("import sys; sys.path.insert(0, %r)\n"
                    "from qsim import boot, batch\nboot.boot()\n"
                    "import json, hashlib\n"
                    "h = hashlib.sha256()\n"
                    "n = 0\n"
                    "for wname, share in batch.PROP_WORLDS[%r]:\n"
                    "    for i in range(0, 40):\n"
                    "        plan, ctx = batch._one(wname, %r, boot.master_seed(), i, 'quick')\n"
                    "        h.update(ctx.digest().encode()); n += 1\n"
                    "print(n, h.hexdigest())\n") % (HERE, prop, prop)
            r = subprocess.run(["/venv/bin/python", "-c", code], env=env, capture_output=True, text=True)
            outs.append(r.stdout.strip() or r.stderr[-500:])
        same = len(set(outs)) == 1
        print("%s determinism across hash seeds: %s %s" % (prop, "OK" if same else "DIFFERENT", outs[0][:90]))
        if not same:
            bad += 1
            print(outs)
    return 1 if bad else 0


def main():
    if len(sys.argv) < 2:
        print(__doc__)
        return 2
    cmd = sys.argv[1]
    if cmd == "mutants":
        return cmd_mutants(sys.argv[2:])
    if cmd == "schema":
        return cmd_schema(sys.argv[2:])
    if cmd == "determinism":
        return cmd_determinism(sys.argv[2:])
    print(__doc__)
    return 2


if __name__ == "__main__":
    sys.exit(main())

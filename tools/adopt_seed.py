#!/venv/bin/python
"""Adopt a sub-agent's seeded change:  adopt_seed.py <PROPERTY> <agent worktree> <seed id> ["needs" text]

Confirms, in a fresh scratch copy of /repo (never /repo itself):
  * the demonstration passes on the unmodified code,
  * the patch applies, the repo's own test suite still passes with it,
  * the demonstration fails with it,
then stores /verif/seeded/<seed id>/{patch.diff, demo.py, NOTES.md, meta.json}.
"""
import json
import os
import shutil
import subprocess
import sys

HERE = os.path.dirname(os.path.dirname(os.path.abspath(__file__)))
sys.path.insert(0, os.path.join(HERE, "tools"))
import selftest  # noqa


def run_demo(d, demo):
    env = dict(os.environ)
    env["PYTHONPATH"] = d
    env["PYTHONDONTWRITEBYTECODE"] = "1"
    r = subprocess.run(["/venv/bin/python", demo], cwd=d, env=env, capture_output=True, text=True, timeout=900)
    return r.returncode, (r.stdout + r.stderr)[-400:]


def main():
    prop, wt, sid = sys.argv[1], sys.argv[2], sys.argv[3]
    needs = sys.argv[4] if len(sys.argv) > 4 else ""
    src = os.path.join(wt, "_seed")
    patch = os.path.join(src, "patch.diff")
    demo_src = os.path.join(src, "demo.py")
    assert os.path.exists(patch) and os.path.exists(demo_src), "missing deliverables in %s" % src
    ran = []
    # 1. unmodified code
    d = selftest.make_scratch({"name": sid, "file": "README.md", "old": "\x00never", "new": ""}) if False else None
    d = selftest.tempfile.mkdtemp(prefix="qsim-seed-", dir=selftest.SCRATCH_BASE)
    try:
        for item in ("qstrader", "tests", "pyproject.toml", "README.md"):
            s = os.path.join("/repo", item)
            t = os.path.join(d, item)
            if os.path.isdir(s):
                shutil.copytree(s, t, ignore=shutil.ignore_patterns("__pycache__", "*.pyc"))
            elif os.path.exists(s):
                shutil.copy(s, t)
        demo = os.path.join(d, "_demo.py")
        shutil.copy(demo_src, demo)
        # demos refer to their worktree path; point them at the scratch copy
        with open(demo) as f:
            text = f.read()
        text = text.replace(wt, d)
        with open(demo, "w") as f:
            f.write(text)
        code0, out0 = run_demo(d, demo)
        ran.append("demo on unmodified copy of /repo: exit %d" % code0)
        r = subprocess.run(["git", "apply", "--unsafe-paths", "--directory=" + d, patch], cwd=d,
                           capture_output=True, text=True)
        if r.returncode != 0:
            r = subprocess.run(["patch", "-p1", "-i", patch], cwd=d, capture_output=True, text=True)
        assert r.returncode == 0, "patch does not apply: " + r.stderr + r.stdout
        ok, tail = selftest.run_repo_tests(d)
        ran.append("repo test suite with the change: %s (%s)" % ("pass" if ok else "FAIL", tail))
        code1, out1 = run_demo(d, demo)
        ran.append("demo with the change: exit %d" % code1)
    finally:
        shutil.rmtree(d, ignore_errors=True)
    print("\n".join(ran))
    good = (code0 == 0 and ok and code1 != 0)
    if not good:
        print("NOT ADOPTED:", out0[-300:], out1[-300:])
        return 1
    dst = os.path.join(HERE, "seeded", sid)
    os.makedirs(dst, exist_ok=True)
    shutil.copy(patch, os.path.join(dst, "patch.diff"))
    shutil.copy(demo_src, os.path.join(dst, "demo.py"))
    if os.path.exists(os.path.join(src, "NOTES.md")):
        shutil.copy(os.path.join(src, "NOTES.md"), os.path.join(dst, "NOTES.md"))
    meta = {"property": prop, "caught_by": [prop], "needs": needs, "source": "independent sub-agent given only the property text",
            "confirmed": ran, "checks_run": []}
    with open(os.path.join(dst, "meta.json"), "w") as f:
        json.dump(meta, f, indent=1)
    print("adopted as", dst)
    return 0


if __name__ == "__main__":
    sys.exit(main())

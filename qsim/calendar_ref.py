"""Independent reference calendar (pure integer / datetime arithmetic, no pandas offsets).

Instants are integer epoch seconds (UTC); days are integer epoch days.  This is the trusted base of
the C04/C08/C12/C13/C14/C16 oracles and is itself tied to the real clock by the C12/C13 checks.
"""
import calendar
import datetime

from .core import DAY, OPEN_S, CLOSE_S, weekday

PRE_S = 0
POST_S = 23 * 3600 + 59 * 60

WEEKDAYS = ("MON", "TUE", "WED", "THU", "FRI")


def day_weekday(d):
    """Weekday (Mon=0) of epoch day d."""
    return (d + 3) % 7


def is_bday(d):
    return day_weekday(d) <= 4


def ymd(d):
    dt = datetime.date(1970, 1, 1) + datetime.timedelta(days=int(d))
    return dt.year, dt.month, dt.day


def epoch_day(y, m, dd):
    return (datetime.date(y, m, dd) - datetime.date(1970, 1, 1)).days


def business_days(start, end):
    """Monday-Friday epoch days d with start.date <= d <= end.date (instants in epoch seconds)."""
    d0, d1 = start // DAY, end // DAY
    return [d for d in range(d0, d1 + 1) if is_bday(d)]


def engine_events(start, end, pre=False, post=False):
    """The event stream the simulation clock must emit: list of (instant, type)."""
    out = []
    for d in business_days(start, end):
        base = d * DAY
        if pre:
            out.append((base + PRE_S, "pre_market"))
        out.append((base + OPEN_S, "market_open"))
        out.append((base + CLOSE_S, "market_close"))
        if post:
            out.append((base + POST_S, "post_market"))
    return out


def last_bday_of_month(y, m):
    n = calendar.monthrange(y, m)[1]
    d = epoch_day(y, m, n)
    while not is_bday(d):
        d -= 1
    return d


def schedule(kind, start, end, wd=None, pre_market=False):
    """Reference rebalance instants for the four schedule kinds."""
    tod = OPEN_S if pre_market else CLOSE_S
    d0, d1 = start // DAY, end // DAY if end is not None else None
    if kind == "daily":
        return [d * DAY + tod for d in range(d0, d1 + 1) if is_bday(d)]
    if kind == "weekly":
        w = WEEKDAYS.index(wd.upper())
        return [d * DAY + tod for d in range(d0, d1 + 1) if day_weekday(d) == w]
    if kind == "end_of_month":
        out = []
        y, m, _ = ymd(d0)
        while True:
            L = last_bday_of_month(y, m)
            if L > d1:
                break
            if L >= d0:
                out.append(L * DAY + tod)
            m += 1
            if m == 13:
                y, m = y + 1, 1
            if y > 9999:
                break                    # the last month any date type can hold
        return out
    if kind == "buy_and_hold":
        d = d0
        while not is_bday(d):
            d += 1
        return [d * DAY + (start % DAY)]
    raise ValueError(kind)

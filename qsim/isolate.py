"""Run a function in a forked child so that process-global state left behind by earlier runs
(memo caches, module-level dicts) cannot influence it, and its own cannot leak out.

Used by the REPEAT world: there, hidden state surviving between sessions is what is being tested, so
every evaluation must start from the pristine post-import state to be a pure function of its plan.
"""
import os
import pickle
import struct
import traceback


# True in a process that exists for one run only (a forked child, a replay, a REPEAT evaluation): only there may
# host-process state that cannot be undone (re-compiled modules) be changed on behalf of a plan
THROWAWAY = [False]


def forked(fn, *args):
    r, w = os.pipe()
    pid = os.fork()
    if pid == 0:
        code = 0
        THROWAWAY[0] = True
        try:
            os.close(r)
            try:
                payload = pickle.dumps(("ok", fn(*args)))
            except BaseException as e:  # noqa
                payload = pickle.dumps(("err", repr(e)[:500] + "\n" + traceback.format_exc()[-1500:]))
            with os.fdopen(w, "wb") as f:
                f.write(struct.pack("<Q", len(payload)))
                f.write(payload)
        except BaseException:
            code = 1
        os._exit(code)
    os.close(w)
    with os.fdopen(r, "rb") as f:
        head = f.read(8)
        data = b""
        if len(head) == 8:
            n = struct.unpack("<Q", head)[0]
            data = f.read(n)
    os.waitpid(pid, 0)
    if not data:
        raise RuntimeError("forked child died without a result")
    kind, val = pickle.loads(data)
    if kind == "err":
        raise RuntimeError("forked child raised: " + val)
    return val

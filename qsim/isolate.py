"""Run a function in a forked child so that process-global state left behind by earlier runs
(memo caches, module-level dicts) cannot influence it, and its own cannot leak out.

Used by the REPEAT world: there, hidden state surviving between sessions is what is being tested, so
every evaluation must start from the pristine post-import state to be a pure function of its plan.
"""
import os
import pickle
import struct
import traceback


# True in a process that exists for one run only (a forked child, a replay, a REPEAT evaluation): only there may
# host-process state that cannot be undone (re-compiled modules) be changed on behalf of a plan
THROWAWAY = [False]


class RunTimeout(Exception):
    """The child did not finish within the wall limit (it was killed)."""


# wall limit for one run in its child; far above any legitimate run (the longest take about 15 s on an idle machine)
RUN_TIMEOUT_S = float(os.environ.get("VERIF_RUN_TIMEOUT_S", "240"))


def forked(fn, *args, **kw):
    import select
    import signal
    import time
    timeout = float(kw.get("timeout") or RUN_TIMEOUT_S)
    r, w = os.pipe()
    pid = os.fork()
    if pid == 0:
        code = 0
        THROWAWAY[0] = True
        try:
            signal.signal(signal.SIGALRM, signal.SIG_DFL)
            signal.alarm(int(timeout) + 10)        # never outlive the parent's patience, even as an orphan
        except Exception:
            pass
        try:
            os.close(r)
            try:
                payload = pickle.dumps(("ok", fn(*args)))
            except BaseException as e:  # noqa
                payload = pickle.dumps(("err", repr(e)[:500] + "\n" + traceback.format_exc()[-1500:]))
            with os.fdopen(w, "wb") as f:
                f.write(struct.pack("<Q", len(payload)))
                f.write(payload)
        except BaseException:
            code = 1
        os._exit(code)
    os.close(w)
    deadline = time.monotonic() + timeout
    buf = b""
    need = 8
    data = b""
    timed_out = False
    try:
        while True:
            left = deadline - time.monotonic()
            if left <= 0:
                timed_out = True
                break
            ready, _, _ = select.select([r], [], [], min(left, 5.0))
            if not ready:
                continue
            chunk = os.read(r, 1 << 20)
            if not chunk:
                break
            buf += chunk
            if need == 8 and len(buf) >= 8:
                need = 8 + struct.unpack("<Q", buf[:8])[0]
            if need > 8 and len(buf) >= need:
                data = buf[8:need]
                break
    finally:
        os.close(r)
    if timed_out:
        try:
            os.kill(pid, signal.SIGKILL)
        except Exception:
            pass
        os.waitpid(pid, 0)
        raise RunTimeout("run exceeded the wall limit of %.0f s" % timeout)
    os.waitpid(pid, 0)
    if not data:
        raise RuntimeError("forked child died without a result")
    kind, val = pickle.loads(data)
    if kind == "err":
        raise RuntimeError("forked child raised: " + val)
    return val

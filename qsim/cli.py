"""Command line: check <ID> --tier quick|thorough | replay <file> | digest ... (internal)."""
import json
import sys

from . import boot


def main(argv):
    if not argv:
        print("usage: check <ID> [--tier quick|thorough] | replay <file>")
        return 2
    cmd = argv[0]
    if cmd in ("replay", "run1", "repeat-exec"):
        from . import isolate
        isolate.THROWAWAY[0] = True          # this process exists for one plan only
    if cmd == "replay":
        boot.ensure_hashseed()
        from . import batch
        return batch.replay(argv[1])
    if cmd == "digest":
        # internal: digests of given run indices, printed as JSON (fresh-interpreter determinism check)
        from . import batch
        boot.boot()
        prop, wname, tier, idx = argv[1], argv[2], argv[3], argv[4]
        out = {}
        from .core import run_seed, rng_for, jdump
        import hashlib
        w = batch.world(wname)
        for i in [int(x) for x in idx.split(",") if x]:
            if getattr(w, "DETERMINISM", "full") == "plan":
                seed = run_seed(boot.master_seed(), prop, wname, i)
                plan = w.generate(rng_for(seed), (prop,), tier)
                plan["run_seed"], plan["index"] = seed, i
                from .core import finish_plan
                finish_plan(plan, seed)
                out[str(i)] = "plan:" + hashlib.sha256(jdump(plan).encode()).hexdigest()
                continue
            plan, ctx = batch._one(wname, prop, boot.master_seed(), i, tier)
            out[str(i)] = ctx.digest()
        print(json.dumps(out))
        return 0
    if cmd == "repeat-exec":
        from .worlds import repeat
        return repeat.repeat_exec_main(argv[1])
    if cmd == "childdigest":
        from .worlds import repeat
        return repeat.childdigest_main(argv[1])
    if cmd == "run1":
        # debugging aid: one run with its trace
        from . import batch
        from .core import jdump
        boot.ensure_hashseed()
        boot.boot()
        prop, wname, i = argv[1], argv[2], int(argv[3])
        tier = argv[4] if len(argv) > 4 else "quick"
        plan, ctx = batch._one(wname, prop, boot.master_seed(), i, tier, trace=True)
        print(json.dumps(json.loads(jdump(plan)), indent=1)[:6000])
        print("\n".join(ctx.trace[-80:]))
        print(jdump(ctx.result())[:3000])
        return 0
    boot.ensure_hashseed()
    from . import batch
    prop = cmd
    tier = "quick"
    if "--tier" in argv:
        tier = argv[argv.index("--tier") + 1]
    import os
    tier = os.environ.get("VERIF_TIER", tier) if "--tier" not in argv else tier
    if prop not in batch.PROP_WORLDS:
        print("unknown property %s" % prop)
        return 2
    try:
        return batch.run_check(prop, tier)
    except boot.HarnessError as e:
        print("HARNESS-ERROR %s" % e)
        return 2


if __name__ == "__main__":
    sys.exit(main(sys.argv[1:]))

"""Process bootstrap: fixed hash seed, qstrader imported from the tree under test.

Nothing here draws randomness or reads a clock.
"""
import os
import sys

VERIF_DIR = os.path.dirname(os.path.dirname(os.path.abspath(__file__)))
DEFAULT_SEED = 20261003


def repo_dir():
    return os.path.realpath(os.environ.get("QSTRADER_REPO", "/repo"))


def ensure_hashseed():
    """Re-exec with PYTHONHASHSEED=0 unless a hash seed is already fixed."""
    if os.environ.get("PYTHONHASHSEED") is None:
        env = dict(os.environ)
        env["PYTHONHASHSEED"] = "0"
        os.execve(sys.executable, [sys.executable, "-m", "qsim.cli"] + sys.argv[1:], env)


_booted = False


def boot():
    """Import qstrader from QSTRADER_REPO (default /repo) and silence its console output."""
    global _booted
    if _booted:
        return
    rd = repo_dir()
    if rd in sys.path:
        sys.path.remove(rd)
    sys.path.insert(0, rd)
    os.environ.setdefault("MPLBACKEND", "Agg")
    import logging
    logging.disable(logging.CRITICAL)
    import warnings
    warnings.simplefilter("ignore")
    import qstrader
    from qstrader import settings
    where = os.path.realpath(qstrader.__file__)
    if not where.startswith(rd + os.sep):
        raise HarnessError("qstrader imported from %s, expected under %s" % (where, rd))
    settings.set_print_events(False)
    _booted = True
    preload()
    from .core import apply_host_state
    apply_host_state({})          # the plain host state is the known baseline every child starts from


def preload():
    """Import every qstrader module the worlds use (not the plotting/statistics package) and touch the pandas
    code paths they need, so that forked children start warm and identical."""
    import importlib
    import pkgutil
    import qstrader
    for m in pkgutil.walk_packages(qstrader.__path__, "qstrader."):
        if ".statistics" in m.name:
            continue
        try:
            importlib.import_module(m.name)
        except Exception:
            pass
    import pandas as pd
    import numpy as np
    import pytz
    t = pd.Timestamp(0, unit="s", tz="UTC")
    pd.date_range(t, t + pd.Timedelta(days=40), freq=pd.tseries.offsets.BDay())
    pd.date_range(t, t + pd.Timedelta(days=40), freq="W-WED")
    pd.date_range(t, t + pd.Timedelta(days=40), freq="BME")
    pd.bdate_range(t, t + pd.Timedelta(days=4))
    df = pd.DataFrame({"a": [1.0, np.nan]}, index=pd.DatetimeIndex([t, t + pd.Timedelta(days=1)]))
    df.ffill()
    df.index.get_indexer([t], method="pad")
    pd.Series([1.0, 2.0]).pct_change()
    t.tz_convert("US/Eastern")


def qstrader_file():
    import qstrader
    return os.path.realpath(qstrader.__file__)


def repo_commit():
    import subprocess
    try:
        out = subprocess.run(["git", "-C", repo_dir(), "rev-parse", "HEAD"],
                             capture_output=True, text=True, timeout=20)
        head = out.stdout.strip() or "unknown"
        st = subprocess.run(["git", "-C", repo_dir(), "status", "--porcelain", "--untracked-files=no"],
                            capture_output=True, text=True, timeout=20)
        return head + ("+dirty" if st.stdout.strip() else "")
    except Exception:
        return "unknown"


class HarnessError(Exception):
    """A failure of the machinery itself (exit 2, never a VIOLATION)."""


def master_seed():
    v = os.environ.get("VERIF_SEED")
    if v is None or v == "":
        return DEFAULT_SEED
    return int(v)

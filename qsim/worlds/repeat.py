"""REPEAT world (C18): the same backtest configuration is executed repeatedly under perturbations
that must not matter -- fresh objects in the same process, data-source objects that already served
other sessions and ad-hoc queries, memo caches cleared at random event boundaries, a permuted
directory listing, and fresh interpreters under other string-hash seeds.  All result digests
(fills without order ids, equity curve, target allocations; bit for bit) must be equal.
"""
import hashlib
import json
import os
import random
import shutil
import subprocess
import sys
import zlib

from ..core import Ctx, StopRun, fhex, iso, jdump, ts, DAY, OPEN_S, CLOSE_S
from .. import boot
from .. import sessionlib as sl
from .. import market as mk

NAME = "repeat"
# the execution's determinism is the property under test here: the harness self-check covers the
# plan generator only, and the event log holds nothing derived from results
DETERMINISM = "plan"
# a difference between executions of the same plan is a violation when observed (see batch.run_check)
OBSERVED_IS_VIOLATION = True
PROPS = ("C18",)
CHUNK = {"quick": 3, "thorough": 8}
PENDING_FACTOR = 1
RULE = ("(alpha kind, universe kind, sizing mode, rebalance kind, data route, number of assets, variants executed: "
        "same-process / shared-source history length / cache clears / permuted listing / hash seeds)")

HASH_SEEDS = ("1", "31337", "4000000000")


def generate(rng, focus, tier="quick"):
    cfg, market = sl.gen_config(rng, "C18", tier)
    others = []
    for _ in range(rng.randrange(1, 4)):
        c2, _m = sl.gen_config(random.Random(rng.randrange(1 << 30)), "C14", tier)
        # another strategy over the same market and date range
        c2["start"], c2["end"], c2["universe"], c2["burn_in"] = cfg["start"], cfg["end"], cfg["universe"], None
        if c2["alpha"]["kind"] == "fixed":
            assets = sl.rb_assets(cfg)
            c2["alpha"]["weights"] = dict((a, 1.0) for a in assets) or c2["alpha"]["weights"]
        if c2["alpha"]["kind"] == "topn":
            c2["alpha"]["n"] = 1
        others.append(c2)
    lo, hi = cfg["start"] - 5 * DAY, cfg["end"] + 5 * DAY
    adhoc = [[rng.choice(sorted(market["assets"])), rng.randrange(lo, hi)] for _ in range(rng.randrange(0, 30))]
    n_events = 2 * max(1, (cfg["end"] - cfg["start"]) // DAY)
    clears = sorted(set(rng.randrange(0, n_events) for _ in range(rng.randrange(1, 6))))
    plan = {"world": NAME, "cfg": cfg, "market": market, "others": others, "adhoc": adhoc, "clears": clears,
            "perm_seed": rng.randrange(1 << 30), "uuid_seed": rng.randrange(1 << 30), "hash_seeds": list(HASH_SEEDS if tier == "thorough" else HASH_SEEDS[:2])}
    # a long-lived host process: so many orders went through another broker object before the run that any
    # process-wide counter is about to gain a digit / wrap (just below a power of ten or of two)
    plan["prior_orders"] = None
    if rng.random() < 0.45:
        # "aims": where among the orders of a repeated run the process-wide count of orders reaches each boundary
        # (a fraction of that run's orders), for 2**16, 10**5, 10**6 and 2**20 in turn
        plan["prior_orders"] = {"aims": [round(rng.random(), 3) for _ in range(4)]}
    return plan


def result_digest(out):
    """Digest of what C18 names: fills (no order ids), equity curve, target allocations; bit for bit."""
    h = hashlib.sha256()
    parts = {
        "ctor": out.ctor_exc, "exc": out.exc, "exc_at": out.exc_at,
    }
    if out.session is not None:
        parts["fills"] = [(x["t"], x["asset"], fhex(x["qty"]), fhex(x["price"]), fhex(x["comm"])) for x in out.rec.txns]
        parts["history"] = [(t, typ, desc, fhex(d), fhex(c), fhex(b)) for (t, typ, desc, d, c, b) in out.history]
        parts["equity"] = [(t, fhex(v)) for t, v in out.equity]
        parts["allocations"] = [[(k, v if k == "Date" else fhex(v)) for k, v in d.items()] for d in out.allocs_live]
        parts["cash"] = fhex(out.cash)
        parts["holdings"] = sorted((a, fhex(q)) for a, q in out.holdings.items())
    h.update(jdump(parts).encode())
    return h.hexdigest(), parts


def plain_digest(cfg, market, uuid_seed=0):
    out = sl.run_session(cfg, market, monitors=True, uuid_seed=uuid_seed)
    return result_digest(out)


class _OsProxy(object):
    """`os` as seen by qstrader.data.daily_bar_csv, with a permuted directory listing."""

    def __init__(self, real, seed):
        self._real = real
        self._seed = seed

    def listdir(self, path):
        items = sorted(self._real.listdir(path))
        random.Random(self._seed).shuffle(items)
        return items

    def __getattr__(self, name):
        return getattr(self._real, name)


def child_digests(plans, hash_seed):
    """Run the plain variant of each plan in a fresh interpreter under another PYTHONHASHSEED."""
    d = mk.scratch_dir()
    try:
        path = os.path.join(d, "plans.json")
        with open(path, "w") as f:
            f.write(jdump([{"cfg": p["cfg"], "market": p["market"], "uuid_seed": p.get("uuid_seed", 0)} for p in plans]))
        env = dict(os.environ)
        env["PYTHONHASHSEED"] = str(hash_seed)
        r = subprocess.run([sys.executable, "-m", "qsim.cli", "childdigest", path], cwd=boot.VERIF_DIR, env=env,
                           capture_output=True, text=True, timeout=900)
        if r.returncode != 0:
            raise boot.HarnessError("child interpreter failed: %s" % r.stderr[-600:])
        return json.loads(r.stdout.strip().splitlines()[-1])
    finally:
        shutil.rmtree(d, ignore_errors=True)


def childdigest_main(path):
    boot.boot()
    with open(path) as f:
        plans = json.load(f)
    from ..isolate import forked
    out = []
    for p in plans:
        # each plan from the pristine post-import state of this interpreter
        out.append(forked(lambda q: plain_digest(q["cfg"], q["market"], uuid_seed=q.get("uuid_seed", 0) + 99)[0], p))
    print(json.dumps(out))
    return 0


def execute_chunk(plans, focus, trace=False):
    """All plans of a chunk share one child interpreter per hash seed."""
    seeds = sorted(set(s for p in plans for s in p.get("hash_seeds", [])))
    child = {}
    for s in seeds:
        child[s] = child_digests(plans, s)
    ctxs = []
    for i, p in enumerate(plans):
        ctxs.append(_execute(p, focus, trace, dict((s, child[s][i]) for s in seeds if s in p.get("hash_seeds", []))))
    return ctxs


def execute(plan, focus, trace=False):
    return execute_chunk([plan], focus, trace)[0]


def _execute(plan, focus, trace, child):
    """One evaluation = one fresh interpreter (same start as a replay), so that even allocator- and
    collector-dependent behaviour (e.g. a memo keyed by the id() of a dead object) is a function of the
    plan and replays."""
    d = mk.scratch_dir()
    try:
        path = os.path.join(d, "plan.json")
        with open(path, "w") as f:
            f.write(jdump({"plan": plan, "focus": sorted(focus), "child": child}))
        env = dict(os.environ)
        env["PYTHONHASHSEED"] = os.environ.get("PYTHONHASHSEED", "0")
        r = subprocess.run([sys.executable, "-m", "qsim.cli", "repeat-exec", path], cwd=boot.VERIF_DIR, env=env,
                           capture_output=True, text=True, timeout=1800)
        if r.returncode != 0:
            raise boot.HarnessError("repeat-exec failed: %s" % r.stderr[-800:])
        doc = json.loads(r.stdout.strip().splitlines()[-1])
    finally:
        shutil.rmtree(d, ignore_errors=True)
    return Ctx.rebuild(focus, doc["res"], doc["lines"], trace=trace)


def repeat_exec_main(path):
    boot.boot()
    with open(path) as f:
        doc = json.load(f)
    res, lines = _execute_here(doc["plan"], tuple(doc["focus"]), doc["child"])
    print(jdump({"res": res, "lines": lines}))
    return 0


def _execute_here(plan, focus, child):
    ctx = Ctx(focus, trace=True)
    try:
        _run(plan, ctx, child)
    except StopRun:
        pass
    ctx.sim_seconds = max(0, plan["cfg"]["end"] - plan["cfg"]["start"]) * (5 + len(child))
    return ctx.result(), ctx.trace


def _diff(pa, pb):
    for k in sorted(set(pa) | set(pb)):
        if pa.get(k) != pb.get(k):
            a, b = pa.get(k), pb.get(k)
            if isinstance(a, list) and isinstance(b, list):
                n = min(len(a), len(b))
                i = next((j for j in range(n) if a[j] != b[j]), n)
                return {"field": k, "index": i, "first": a[i:i + 1], "second": b[i:i + 1], "n_first": len(a),
                        "n_second": len(b)}
            return {"field": k, "first": a, "second": b}
    return None


def _run(plan, ctx, child):
    from qstrader.data import daily_bar_csv as dbc
    from qstrader.asset.equity import Equity
    P = "C18"
    cfg, market = plan["cfg"], plan["market"]
    ctx.step = 0
    us = plan.get("uuid_seed", 0)
    # (e) after sessions over a DIFFERENT market (same symbols, same dates), from a pristine process state:
    #     hidden state that survives a session must not reach the next one
    from ..isolate import forked

    def variant_e():
        m2 = {"adjust": market["adjust"], "assets": {}}
        for sym, a in market["assets"].items():
            m2["assets"][sym] = {"rows": [[r[0]] + [(None if x is None else mk.r4(x * 3.0 + 1.0)) for x in r[1:6]] + [r[6]]
                                          for r in a["rows"]]}
        sl.run_session(plan["others"][0] if plan["others"] else cfg, m2, monitors=False)
        worst = None
        # several cycles "session on the other data, then the real one": whether a dead object's identity is
        # reused by a new one depends on the allocator, so one cycle alone may not show a memo keyed that way
        for k in range(3):
            sl.run_session(cfg, m2, monitors=False)
            got = plain_digest(cfg, market, uuid_seed=us + 4 + k)
            if worst is None or got[0] != first[0]:
                worst = got
            if k == 0:
                first = got
        return worst
    d5, p5 = forked(variant_e)
    ctx.fault("other_market_session_before")
    d8 = None
    if plan.get("prior_orders"):
        def variant_h():
            from qstrader.broker.simulated_broker import SimulatedBroker
            from qstrader.exchange.simulated_exchange import SimulatedExchange
            from qstrader.execution.order import Order
            po = plan["prior_orders"]
            # the run once (its orders count too); then, for each boundary in ascending order: throw-away orders on a
            # host broker up to just below it and the run again, so that the boundary is crossed among its orders
            first = plain_digest(cfg, market, uuid_seed=us + 30)
            n = len(first[1].get("fills", []))
            t0 = ts(cfg["start"])
            host = SimulatedBroker(t0, SimulatedExchange(t0), None, account_id="host")
            host.create_portfolio("scratch", "scratch")
            o = Order(t0, "EQ:ZZZ", 1)
            done = n
            worst = first
            for k_, boundary in enumerate((2 ** 16, 10 ** 5, 10 ** 6, 2 ** 20)):
                j = 1 + int(po["aims"][k_] * max(1, n))
                for _ in range(max(0, boundary - j - done)):
                    host.submit_order("scratch", o)
                done = max(done, boundary - j)
                again = plain_digest(cfg, market, uuid_seed=us + 31 + k_)
                done += n
                if again[0] != first[0]:
                    worst = again
                    break
            return worst
        d8, p8 = forked(variant_h)
        ctx.fault("many_orders_on_another_broker_before")
    # (i) uninitialised memory made visible: numpy's empty()/empty_like() hand out arrays filled with a sentinel
    #     instead of whatever the allocator left there; a result that reads such cells before writing them differs
    def variant_i():
        import numpy as np
        real_empty, real_empty_like = np.empty, np.empty_like

        def _poison(arr):
            try:
                if arr.dtype.kind == "f":
                    arr.fill(7.25e11)
                elif arr.dtype.kind in "iu":
                    arr.fill(77)
            except Exception:
                pass
            return arr

        def empty(*a, **k):
            return _poison(real_empty(*a, **k))

        def empty_like(*a, **k):
            return _poison(real_empty_like(*a, **k))
        np.empty, np.empty_like = empty, empty_like
        try:
            return plain_digest(cfg, market, uuid_seed=us + 40)
        finally:
            np.empty, np.empty_like = real_empty, real_empty_like
    d9, p9 = forked(variant_i)
    ctx.fault("uninitialised_memory_poisoned")
    base, base_parts = plain_digest(cfg, market, uuid_seed=us)
    ctx.event("base")
    variants = [("after_sessions_on_other_market_data", d5, p5),
                ("with_uninitialised_numpy_memory_poisoned", d9, p9)]
    if d8 is not None:
        variants.append(("after_many_orders_on_another_broker_in_the_process", d8, p8))
    # (a) again in the same process with fresh objects
    d2, p2 = plain_digest(cfg, market, uuid_seed=us + 1)     # another stream of order ids
    variants.append(("same_process_again", d2, p2))
    ctx.fault("same_process_again")
    # (f) twice more, re-using the user-level input objects (universe, alpha model and its weights dict)
    if cfg["alpha"]["kind"] in ("fixed", "single"):
        shared = {}
        for k in range(2):
            o = sl.run_session(cfg, market, monitors=True, uuid_seed=us + 10 + k, shared_inputs=shared)
            dk, pk = result_digest(o)
            variants.append(("same_process_reusing_universe_and_alpha_objects_run_%d" % (k + 1), dk, pk))
        ctx.fault("user_input_objects_reused")
    # (b) shared, memoised data source with a history of other sessions and ad-hoc queries + cache clears
    dirpath = mk.scratch_dir(cfg.get("dir_suffix", ""))
    try:
        mk.write_market(market, dirpath)
        try:
            src = dbc.CSVDailyBarDataSource(dirpath, Equity, adjust_prices=cfg.get("adjust", True))
        except Exception as e:
            src = None
        if src is not None:
            try:
                # a historical-closes query before any price lookup on this source object
                src.get_assets_historical_closes(ts(cfg["start"] - 30 * DAY), ts(cfg["end"]),
                                                 ["EQ:" + s_ for s_ in sorted(market["assets"])])
                ctx.fault("closes_query_before_first_price_lookup")
            except Exception:
                ctx.probe("closes_query_raised")
            for c2 in plan["others"]:
                sl.run_session(c2, market, monitors=False, shared_source=src)
                ctx.fault("shared_source_served_other_session")
            for sym, t in plan["adhoc"]:
                try:
                    src.get_bid(ts(t), "EQ:" + sym)
                    src.get_ask(ts(t), "EQ:" + sym)
                except Exception:
                    pass
            ctx.fault("adhoc_queries", len(plan["adhoc"]))

            clears = set(plan["clears"])

            def hooks(session, out):
                inner = session.sim_engine

                class ClearingEngine(object):
                    def __iter__(self_inner):
                        for i, ev in enumerate(inner):
                            if i in clears:
                                for fn in (dbc.CSVDailyBarDataSource.get_bid, dbc.CSVDailyBarDataSource.get_ask):
                                    cc = getattr(fn, "cache_clear", None)
                                    if cc:
                                        cc()
                                ctx.fault("cache_clear_mid_run")
                            yield ev

                    def __getattr__(self_inner, name):
                        return getattr(inner, name)
                session.sim_engine = ClearingEngine()
            # the same backtest served once under the PLAIN host state (a host that tightened its warning filter,
            # numpy error state, ... only afterwards): whatever that run left in the memo caches must not matter
            from ..core import HOST_PLAIN
            if any(cfg.get(k, v) != v for k, v in HOST_PLAIN.items()):
                plain_cfg = dict(cfg)
                plain_cfg.update(HOST_PLAIN)
                sl.run_session(plain_cfg, market, monitors=False, shared_source=src)
                ctx.fault("shared_source_served_same_backtest_under_plain_host_state")
            # first with the memo caches as those sessions and queries left them, then with mid-run cache clears
            out3a = sl.run_session(cfg, market, monitors=True, shared_source=src, uuid_seed=us + 5)
            d3a, p3a = result_digest(out3a)
            variants.append(("shared_source_with_history", d3a, p3a))
            out3 = sl.run_session(cfg, market, monitors=True, shared_source=src, hooks=hooks, uuid_seed=us + 2)
            d3, p3 = result_digest(out3)
            variants.append(("shared_source_with_history_and_cache_clears", d3, p3))
        # (d) permuted directory listing
        real_os = dbc.os
        dbc.os = _OsProxy(real_os, plan["perm_seed"])
        try:
            cfg4 = dict(cfg)
            cfg4["data_via"] = "env" if cfg["data_via"] == "env" else "handler_listdir"
            out4 = sl.run_session(cfg4, market, monitors=True, dirpath=dirpath, uuid_seed=us + 3)
            d4, p4 = result_digest(out4)
            variants.append(("listdir_permuted", d4, p4))
            ctx.fault("listdir_permuted")
        finally:
            dbc.os = real_os
        # (g) a different source object on the SAME directory, with the other price-adjustment setting, served a
        #     session first; the real run then builds its own source on that directory
        try:
            for fn in (dbc.CSVDailyBarDataSource.get_bid, dbc.CSVDailyBarDataSource.get_ask):
                cc = getattr(fn, "cache_clear", None)
                if cc:
                    cc()            # start this variant from cold memo caches
            other = dbc.CSVDailyBarDataSource(dirpath, Equity, adjust_prices=False)
            sl.run_session(cfg, market, monitors=False, shared_source=other)
            for sym, t in plan["adhoc"]:
                try:
                    other.get_bid(ts(t), "EQ:" + sym)
                except Exception:
                    pass
            cfg7 = dict(cfg)
            cfg7["data_via"] = "handler_listdir" if cfg["data_via"] != "env" else "env"
            out7 = sl.run_session(cfg7, market, monitors=True, dirpath=dirpath, uuid_seed=us + 20)
            d7, p7 = result_digest(out7)
            variants.append(("after_an_unadjusted_source_on_the_same_directory", d7, p7))
            ctx.fault("other_source_same_directory")
        except Exception:
            ctx.probe("variant_g_not_applicable")
    finally:
        shutil.rmtree(dirpath, ignore_errors=True)
    for name, dg, parts in variants:
        ctx.event("variant", name)
        if not ctx.check(P, dg == base, "result_differs:" + name,
                         lambda: {"variant": name, "difference": _diff(base_parts, parts)},
                         sig="result_differs:" + name):
            return
    # (c) fresh interpreters under other hash seeds
    for s, dg in sorted(child.items()):
        ctx.fault("hash_seed")
        ctx.event("child", s)
        if not ctx.check(P, dg == base, "result_differs:fresh_interpreter_other_hash_seed",
                         lambda: {"hash_seed": s, "this_process": base, "child": dg,
                                  "alloc_keys": base_parts.get("allocations", [[]])[:1]},
                         sig="result_differs:fresh_interpreter_other_hash_seed"):
            return
    ctx.sig(zlib.crc32(("%s|%s|%s|%s|%s|%d|%d|%d" % (
        cfg["alpha"]["kind"], cfg["universe"]["kind"], cfg["long_only"], cfg["rebalance"], cfg["data_via"],
        len(market["assets"]), len(plan["others"]), len(child))).encode()))


SHRINK_LISTS = ("others", "adhoc", "clears")


def simplifications(plan):
    import copy
    from . import session as sw
    base = {"world": "session", "cfg": plan["cfg"], "market": plan["market"], "bad": None}
    for cand in sw.simplifications(base):
        p = copy.deepcopy(plan)
        p["cfg"] = cand["cfg"]
        p["market"] = cand["market"]
        for c2 in p["others"]:
            c2["start"], c2["end"], c2["universe"] = p["cfg"]["start"], p["cfg"]["end"], p["cfg"]["universe"]
        yield p

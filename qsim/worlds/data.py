"""DATA world: real CSVDailyBarDataSource + BacktestDataHandler + pandas CSV reader over synthetic bar
files with injected data faults, queried at adversarial instants in random order (C06).

Oracle 1: literal point-in-time reference model (qsim.refprice).
Oracle 2 (independent of oracle 1): re-load the files with every row dated after the query day
          deleted (and the remaining rows permuted): all answers must be bit-identical.
No stubs.
"""
import copy
import shutil
import zlib

from ..core import Ctx, StopRun, close, fhex, ts, DAY, OPEN_S, CLOSE_S, weekday, iso
from .. import market as mk
from ..refprice import RefPrices
from ..calendar_ref import is_bday

NAME = "data"
ISOLATE = "fork"
PROPS = ("C06",)
CHUNK = {"quick": 12, "thorough": 12}
RULE = ("(data faults of the asset, position of the query instant relative to the asset's bars: before first / "
        "open boundary / intraday / close boundary / overnight / weekend / gap day / after last, API used, "
        "answer NaN or not)")

DATA_FAULTS = ("shuffle_rows", "gap_days", "empty_cell", "late_start", "halt", "zero_bar")
APIS = ("bid", "ask", "h_bid", "h_ask", "h_bidask", "h_mid")


def generate(rng, focus, tier="quick"):
    n_assets = rng.randrange(1, 5)
    n_bdays = rng.choice([1, 2, 3, 5, 8, 13, 21, 40])
    day0 = rng.randrange(16436, 20000)  # 2015 .. 2024
    while not is_bday(day0):
        day0 += 1
    adjust = rng.random() < 0.6
    faults = [f for f in DATA_FAULTS if rng.random() < 0.5]
    if rng.random() < 0.12:
        faults = []
    market = mk.gen_market(rng, n_assets, day0, n_bdays, adjust=adjust, faults=faults,
                           weekend_rows=rng.random() < 0.15)
    assets = sorted(market["assets"])
    # all row days of all assets, for picking adversarial instants
    days = sorted(set(r[0] for a in market["assets"].values() for r in a["rows"]))
    lo, hi = days[0], days[-1]
    n_q = rng.randrange(30, 151)
    ops = []

    def instant():
        r = rng.random()
        if r < 0.12:
            return (lo - rng.randrange(1, 6)) * DAY + rng.choice([0, OPEN_S, CLOSE_S, 12 * 3600])
        if r < 0.2:
            return (hi + rng.randrange(1, 6)) * DAY + rng.choice([0, OPEN_S, CLOSE_S, 12 * 3600])
        if r < 0.28:
            # the first bar of some asset: just before / at its open
            a = rng.choice(assets)
            d = min(rw[0] for rw in market["assets"][a]["rows"])
            return d * DAY + rng.choice([OPEN_S - 1, OPEN_S, 0, OPEN_S - 3600])
        d = rng.randrange(lo, hi + 1) if rng.random() < 0.5 else rng.choice(days)
        r = rng.random()
        if r < 0.55:
            tod = rng.choice([OPEN_S - 1, OPEN_S, OPEN_S + 1, CLOSE_S - 1, CLOSE_S, CLOSE_S + 1])
        elif r < 0.75:
            tod = rng.randrange(OPEN_S, CLOSE_S)
        elif r < 0.9:
            tod = rng.choice([0, 3600, 9 * 3600, 23 * 3600 + 59 * 60])
        else:
            tod = rng.randrange(0, DAY)
        return d * DAY + tod

    for _ in range(n_q):
        r = rng.random()
        if r < 0.05:
            ops.append({"k": "clear"})
            continue
        if r < 0.12 and ops:
            prev = rng.choice([o for o in ops if o["k"] == "q"] or [None])
            if prev is not None:
                ops.append(dict(prev))      # repeated query (memoised path)
                continue
        a = "EQ:" + rng.choice(assets)
        if rng.random() < 0.03:
            a = "EQ:ZZZ"                   # unknown asset
        ops.append({"k": "q", "api": rng.choice(APIS), "asset": a, "t": instant()})
    cuts = sorted(set(rng.choice(days) if rng.random() < 0.7 else rng.randrange(lo - 1, hi + 1)
                      for _ in range(rng.randrange(1, 4))))
    cfg = {"use_symbols": rng.random() < 0.5, "cuts": cuts, "perm_seed": rng.randrange(1 << 30),
           "handler_universe": rng.choice([None, None, "empty", "subset", "late"]),
           "dir_suffix": rng.choice(mk.DIR_SUFFIXES), "dict_first": rng.random() < 0.4}
    plan = {"world": NAME, "cfg": cfg, "market": market, "ops": ops}
    if rng.random() < 0.3:
        # a second data source behind the same handler: the handler must return the first non-NaN answer
        k = rng.randrange(1, 5)
        shift = rng.choice([-5, -2, 0, 3])
        d2 = day0 + shift
        while not is_bday(d2):
            d2 += 1
        plan["market2"] = mk.gen_market(rng, k, d2, rng.choice([2, 5, 13, 30]), adjust=rng.random() < 0.5,
                                        faults=[f for f in DATA_FAULTS if rng.random() < 0.4])
    return plan


def load_source(market, cfg, dirpath, market2=None):
    import os
    from qstrader.data.daily_bar_csv import CSVDailyBarDataSource
    from qstrader.data.backtest_data_handler import BacktestDataHandler
    from qstrader.asset.equity import Equity
    srcs = []
    for j, mkt in enumerate([market] + ([market2] if market2 is not None else [])):
        d = dirpath if j == 0 else os.path.join(dirpath, "second")
        present = sorted(s for s, a in mkt["assets"].items() if a["rows"] and not a.get("removed"))
        mk.write_market({"assets": {s: mkt["assets"][s] for s in present}}, d)
        syms = present if cfg.get("use_symbols") else None
        srcs.append(CSVDailyBarDataSource(d, Equity, adjust_prices=mkt["adjust"], csv_symbols=syms))
    if cfg.get("dict_first") and market2 is not None:
        # a user-written first source backed by a mapping: same answers as the CSV source of the first market where
        # it has one, KeyError where it has none (unknown symbol, or a time before its first bar)
        ref_ = RefPrices(market)

        class MappingSource(object):
            def _get(self, dt, asset):
                from ..core import epoch as _epoch
                p_ = ref_.price(asset, _epoch(dt))
                if p_ != p_:
                    raise KeyError((str(dt), asset))
                return p_

            def get_bid(self, dt, asset):
                return self._get(dt, asset)

            def get_ask(self, dt, asset):
                return self._get(dt, asset)
        srcs = [srcs[0], MappingSource()] + srcs[1:]
    # the handler's universe argument: prices are a matter of the data, whatever universe object is handed over
    hu = cfg.get("handler_universe")
    uni = None
    if hu:
        from qstrader.asset.universe.static import StaticUniverse
        from qstrader.asset.universe.dynamic import DynamicUniverse
        import pandas as pd
        ids = sorted("EQ:%s" % s_ for s_ in market["assets"])
        if hu == "empty":
            uni = StaticUniverse([])
        elif hu == "subset":
            uni = StaticUniverse(ids[:max(1, len(ids) // 2)][:1])
        else:
            uni = DynamicUniverse(dict((a, pd.Timestamp("2099-01-01", tz="UTC")) for a in ids))
    if cfg.get("dict_first") and market2 is not None:
        return srcs[0], BacktestDataHandler(uni, data_sources=srcs[1:])
    return srcs[0], BacktestDataHandler(uni, data_sources=srcs)


def ask(src, handler, api, asset, t):
    """One query through the real API; returns a float (NaN for 'no answer')."""
    T = ts(t)
    if api == "bid":
        try:
            return float(src.get_bid(T, asset)), None
        except KeyError as e:
            return float("nan"), "KeyError"
    if api == "ask":
        try:
            return float(src.get_ask(T, asset)), None
        except KeyError as e:
            return float("nan"), "KeyError"
    if api == "h_bid":
        return float(handler.get_asset_latest_bid_price(T, asset)), None
    if api == "h_ask":
        return float(handler.get_asset_latest_ask_price(T, asset)), None
    if api == "h_mid":
        return float(handler.get_asset_latest_mid_price(T, asset)), None
    b, a = handler.get_asset_latest_bid_ask_price(T, asset)
    if fhex(b) != fhex(a):
        return float("inf"), "bid!=ask"
    return float(b), None


def truncated(market, cut_day, perm_rng):
    m2 = {"adjust": market["adjust"], "assets": {}}
    for s, a in market["assets"].items():
        rows = [list(r) for r in a["rows"] if r[0] <= cut_day]
        perm_rng.shuffle(rows)
        m2["assets"][s] = {"rows": rows}
    return m2


def position_class(ref, market, asset, t):
    sym = asset[3:]
    a = market["assets"].get(sym)
    if a is None:
        return "unknown"
    days = sorted(r[0] for r in a["rows"])
    d = t // DAY
    tod = t % DAY
    if t < days[0] * DAY + OPEN_S:
        return "before_first"
    if d > days[-1]:
        return "after_last"
    if d not in days:
        return "weekend" if not is_bday(d) else "gap_day"
    if tod in (OPEN_S - 1, OPEN_S, OPEN_S + 1):
        return "open_boundary"
    if tod in (CLOSE_S - 1, CLOSE_S, CLOSE_S + 1):
        return "close_boundary"
    if OPEN_S < tod < CLOSE_S:
        return "intraday"
    return "overnight"


def execute(plan, focus, trace=False):
    from ..core import apply_host_state
    apply_host_state(plan)
    import random
    ctx = Ctx(focus, trace=trace)
    market = plan["market"]
    cfg = plan["cfg"]
    ref = RefPrices(market)
    market2 = plan.get("market2")
    ref2 = RefPrices(market2) if market2 is not None else None
    if market2 is not None:
        ctx.fault("second_data_source")
    dirs = []
    try:
        d0 = mk.scratch_dir(cfg.get("dir_suffix", ""))
        dirs.append(d0)
        try:
            src, handler = load_source(market, cfg, d0, market2)
        except Exception as e:
            from qsim.core import raised_in_repo as _rir
            if not _rir(e):
                raise          # a bug of the harness: exit 2, never a verdict
            try:
                ctx.violate("C06", "loading_valid_csv_raised", {"exc": repr(e)[:300]})
            except StopRun:
                pass
            return ctx
        from qstrader.data.daily_bar_csv import CSVDailyBarDataSource
        applied = market.get("applied", {})
        for f in set(x.split(":")[0] for v in applied.values() for x in v):
            ctx.fault(f, sum(1 for v in applied.values() if any(x.startswith(f) for x in v)))
        answers = {}
        try:
            for i, op in enumerate(plan["ops"]):
                ctx.step = i
                if op["k"] == "clear":
                    for fn in (CSVDailyBarDataSource.get_bid, CSVDailyBarDataSource.get_ask):
                        cc = getattr(fn, "cache_clear", None)
                        if cc:
                            cc()
                    ctx.fault("cache_clear")
                    ctx.event("clear")
                    continue
                api, asset, t = op["api"], op["asset"], op["t"]
                try:
                    got, note = ask(src, handler, api, asset, t)
                except Exception as e:
                    from qsim.core import raised_in_repo as _rir
                    if not _rir(e):
                        raise          # a bug of the harness: exit 2, never a verdict
                    ctx.violate("C06", "query_raised", {"api": api, "asset": asset, "t": iso(t),
                                                        "exc": repr(e)[:300]})
                    continue
                want = ref.price(asset, t)
                known = ref.knows(asset)
                if ref2 is not None and api.startswith("h_"):
                    # handler level: first source whose answer is a number
                    if want != want:
                        want = ref2.price(asset, t)
                        if want == want:
                            ctx.probe("handler_fell_through_to_second_source")
                    known = known or ref2.knows(asset)
                cls = position_class(ref, market, asset, t)
                ctx.event("q", api, asset, t, got)
                ctx.fault("query_" + cls)
                ctx.sig(zlib.crc32(("%s|%s|%s|%s" % (",".join(sorted(applied.get(asset[3:], []))), cls, api,
                                                     want != want)).encode()))
                answers[(api, asset, t)] = got
                if note == "bid!=ask":
                    ctx.violate("C06", "handler_bid_differs_from_ask", {"asset": asset, "t": iso(t)})
                    continue
                if not known:
                    ctx.check("C06", got != got, "unknown_asset_has_a_price", lambda: {"asset": asset, "got": got})
                    continue
                ctx.check("C06", close(got, want, scale=abs(want) if want == want else 0.0, rel=1e-12, abs_=1e-12),
                          "price_not_point_in_time",
                          lambda: {"api": api, "asset": asset, "t": iso(t), "weekday": weekday(t), "got": got,
                                   "reference": want, "query_position": cls,
                                   "first_bar_open": iso(ref.first_time(asset)),
                                   "faults": applied.get(asset[3:], [])},
                          sig="price_not_point_in_time:" + cls)
            # ---- oracle 2: truncate the future, permute the past, re-load, compare bit for bit ----
            if ctx.judging("C06"):
                prng = random.Random(cfg["perm_seed"])
                for cut in cfg["cuts"]:
                    m2 = truncated(market, cut, prng)
                    m22 = truncated(market2, cut, prng) if market2 is not None else None
                    d2 = mk.scratch_dir(cfg.get("dir_suffix", ""))
                    dirs.append(d2)
                    try:
                        src2, h2 = load_source(m2, cfg, d2, m22)
                    except Exception as e:
                        from qsim.core import raised_in_repo as _rir
                        if not _rir(e):
                            raise          # a bug of the harness: exit 2, never a verdict
                        ctx.violate("C06", "loading_truncated_csv_raised", {"exc": repr(e)[:300], "cut": cut})
                        break
                    ctx.fault("truncate_future")
                    limit = (cut + 1) * DAY
                    for (api, asset, t), got in sorted(answers.items()):
                        if t >= limit or not ctx.judging("C06"):
                            continue
                        try:
                            got2, note2 = ask(src2, h2, api, asset, t)
                        except Exception as e:
                            from qsim.core import raised_in_repo as _rir
                            if not _rir(e):
                                raise          # a bug of the harness: exit 2, never a verdict
                            ctx.violate("C06", "query_raised_on_truncated_data",
                                        {"api": api, "asset": asset, "t": iso(t), "exc": repr(e)[:300]})
                            break
                        ctx.check("C06", fhex(got) == fhex(got2), "answer_depends_on_rows_after_query_day",
                                  lambda: {"api": api, "asset": asset, "t": iso(t), "full_file": got,
                                           "rows_after_day_deleted": got2, "cut_day": mk.date_str(cut),
                                           "query_position": position_class(ref, market, asset, t)},
                                  sig="answer_depends_on_rows_after_query_day:" + position_class(ref, market, asset, t))
                    shutil.rmtree(d2, ignore_errors=True)
        except StopRun:
            pass
        days = sorted(set(r[0] for a in market["assets"].values() for r in a["rows"]))
        ctx.sim_seconds = (days[-1] - days[0] + 1) * DAY
    finally:
        for d in dirs:
            shutil.rmtree(d, ignore_errors=True)
    return ctx


SHRINK_LISTS = ("ops",)


def simplifications(plan):
    m = plan["market"]
    # fewer assets
    for s in sorted(m["assets"]):
        if len(m["assets"]) > 1:
            p = copy.deepcopy(plan)
            del p["market"]["assets"][s]
            p["market"].get("applied", {}).pop(s, None)
            p["ops"] = [o for o in p["ops"] if o.get("asset") != "EQ:" + s]
            if p["ops"]:
                yield p
    # fewer rows
    for s in sorted(m["assets"]):
        rows = m["assets"][s]["rows"]
        if len(rows) > 1:
            for keep in (rows[:len(rows) // 2], rows[len(rows) // 2:], rows[:-1], rows[1:]):
                if keep:
                    p = copy.deepcopy(plan)
                    p["market"]["assets"][s]["rows"] = [list(r) for r in keep]
                    yield p
    if len(plan["cfg"]["cuts"]) > 1:
        for c in plan["cfg"]["cuts"]:
            p = copy.deepcopy(plan)
            p["cfg"]["cuts"] = [c]
            yield p

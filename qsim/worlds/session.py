"""SESSION world: one full real backtest (BacktestTradingSession and everything below it) over a
synthetic market on a scratch directory, with monitors attached by instance wrapping.

Serves: C08 (reference backtester), C14, C16 (cadence), C19, and the in-run monitors of C09, C10,
C11, C12, C13.  Stubs: three harness alpha models.
"""
import math
import zlib
from fractions import Fraction

from ..core import Ctx, StopRun, close, fhex, frac, ts, epoch, iso, is_open_ref, DAY, OPEN_S, CLOSE_S
from .. import calendar_ref as cal
from .. import sessionlib as sl
from .. import refbacktest as rb
from ..refprice import RefPrices

NAME = "session"
ISOLATE = "fork"
PROPS = ("C08", "C09", "C10", "C11", "C12", "C13", "C14", "C16", "C19")
CHUNK = {"quick": 6, "thorough": 6}
RULE = ("(rebalance kind, weekday class, sizing mode, fee kind, alpha kind, universe kind, burn-in class, "
        "number of rebalances class, number of fills class, data-fault set, how the run ended)")

BAD_CONFIGS = ("neg_weight_long_only", "buffer_out_of_range", "leverage_non_positive", "unknown_weekday",
               "end_before_start", "missing_weekday")


def generate(rng, focus, tier="quick"):
    f = sorted(focus)[0]
    profile = f if f in ("C07", "C08", "C14", "C16", "C19") else "any"
    if f in ("C09", "C10", "C11"):
        profile = "C14"
    cfg, market = sl.gen_config(rng, profile, tier)
    plan = {"world": NAME, "cfg": cfg, "market": market, "bad": None}
    # bad_config faults, owned by the property that states the rejection
    r = rng.random()
    if f == "C10" and r < 0.12:
        plan["cfg"]["long_only"] = True
        if r < 0.06 and cfg["alpha"]["kind"] == "fixed":
            a0 = sorted(cfg["alpha"]["weights"])[0]
            cfg["alpha"]["weights"][a0] = rng.choice([-abs(cfg["alpha"]["weights"][a0] or 0.3), -1e-12, -5e-9,
                                                      0.3 - 0.1 - 0.2, -1e-7, -1e-17, -5e-324])
            if len(cfg["alpha"]["weights"]) == 1 or all(v <= 0 for v in cfg["alpha"]["weights"].values()):
                others = [a for a in sl.rb_assets(cfg) if a != a0]
                if others:
                    cfg["alpha"]["weights"][others[0]] = 0.5
            plan["bad"] = "neg_weight_long_only"
        else:
            cfg["cash_buffer"] = rng.choice([-0.01, 1.01, 2.0, -1.0])
            plan["bad"] = "buffer_out_of_range"
    elif f == "C11" and r < 0.1:
        plan["cfg"]["long_only"] = False
        cfg["leverage"] = rng.choice([0.0, -1.0, -0.5])
        plan["bad"] = "leverage_non_positive"
    elif f == "C13" and r < 0.1:
        cfg["rebalance"] = "weekly"
        if r < 0.07:
            cfg["weekday"] = rng.choice(["SAT", "SUN", "XYZ", ""])
            plan["bad"] = "unknown_weekday"
        else:
            cfg["weekday"] = None
            plan["bad"] = "missing_weekday"
    elif f == "C12" and r < 0.08:
        cfg["end"] = cfg["start"] - rng.choice([60, DAY, 5 * DAY])
        plan["bad"] = "end_before_start"
    return plan


def execute(plan, focus, trace=False):
    ctx = Ctx(focus, trace=trace)
    cfg, market = plan["cfg"], plan["market"]
    try:
        out = sl.run_session(cfg, market)
        log_outcome(ctx, out)
        judge(plan, out, ctx)
    except StopRun:
        pass
    ctx.sim_seconds = max(0, cfg["end"] - cfg["start"])
    return ctx


def log_outcome(ctx, out):
    """Event log of a session run: fills, equity and allocations bit for bit."""
    ctx.event("ctor", out.ctor_exc)
    if out.session is None:
        return
    ctx.event("exc", out.exc, out.exc_at)
    for x in out.rec.txns:
        ctx.event("txn", x["t"], x["asset"], x["qty"], x["price"], x["comm"])
    for t, v in out.equity:
        ctx.event("eq", t, v)
    for d in out.allocs:
        ctx.event("alloc", *[("%s=%s" % (k, fhex(v))) for k, v in sorted(d.items())])
    ctx.event("end", out.cash, sorted(out.holdings.items()))


def signature(plan, out, ctx):
    cfg = plan["cfg"]
    n_reb = len(out.rec.pcm)
    n_fill = len(out.rec.txns)
    cls = lambda n: "0" if n == 0 else ("1" if n == 1 else ("s" if n < 6 else "m"))
    burn = cfg["burn_in"]
    bcls = "none" if burn is None else ("pre" if burn <= cfg["start"] else ("post" if burn > cfg["end"] else "mid"))
    applied = sorted(set(x.split(":")[0] for v in plan["market"].get("applied", {}).values() for x in v))
    ended = "ok" if out.exc is None and out.ctor_exc is None else ("ctor" if out.ctor_exc else "raised")
    s = "|".join(str(x) for x in (
        cfg["rebalance"], cfg.get("weekday") if cfg["rebalance"] == "weekly" else "-", cfg["long_only"],
        cfg["fee"]["kind"], cfg["alpha"]["kind"], cfg["universe"]["kind"], bcls, cls(n_reb), cls(n_fill),
        ",".join(applied), ended, plan.get("bad")))
    ctx.sig(zlib.crc32(s.encode()))


def judge(plan, out, ctx):
    cfg, market = plan["cfg"], plan["market"]
    ctx.step = 0
    if plan.get("bad"):
        ctx.fault("bad_config:" + plan["bad"])
        judge_bad_config(plan, out, ctx)
        signature(plan, out, ctx) if out.session is not None else ctx.sig(zlib.crc32(("bad|" + plan["bad"]).encode()))
        return
    if out.session is None:
        # a valid configuration that cannot even be constructed
        for p in sorted(ctx.focus):
            ctx.violate(p, "valid_configuration_rejected", {"exc": out.ctor_exc},
                        sig="valid_configuration_rejected:%s" % (out.ctor_exc[0],))
        return
    signature(plan, out, ctx)
    for f in set(x.split(":")[0] for v in market.get("applied", {}).values() for x in v):
        ctx.fault(f)
    if cfg["burn_in"] is not None:
        ctx.fault("burn_in")
    if out.exc is not None:
        ctx.probe("session_raised:" + out.exc[0])
    if ctx.judging("C12"):
        judge_c12(cfg, out, ctx)
    if ctx.judging("C13"):
        judge_c13(cfg, out, ctx)
    if ctx.judging("C08"):
        rb.judge_c08(cfg, market, out, ctx)
    if ctx.judging("C14"):
        judge_c14(cfg, market, out, ctx)
    if ctx.judging("C16"):
        judge_c16(cfg, market, out, ctx)
    if ctx.judging("C19"):
        judge_c19(cfg, market, out, ctx)
    if ctx.judging("C09"):
        judge_c09(cfg, market, out, ctx)
    if ctx.judging("C10"):
        judge_sizer(cfg, out, ctx, "C10")
    if ctx.judging("C11"):
        judge_sizer(cfg, out, ctx, "C11")


# ---------------------------------------------------------------------------
def judge_bad_config(plan, out, ctx):
    bad = plan["bad"]
    prop = {"neg_weight_long_only": "C10", "buffer_out_of_range": "C10", "leverage_non_positive": "C11",
            "unknown_weekday": "C13", "missing_weekday": "C13", "end_before_start": "C12"}[bad]
    if not ctx.judging(prop):
        return
    if bad == "neg_weight_long_only":
        # constructed fine; the first rebalance must refuse with ValueError and submit nothing
        if out.ctor_exc is not None:
            ctx.violate(prop, "constructor_rejected_weights_early", {"exc": out.ctor_exc})
            return
        sched = reference_pcm_instants(plan["cfg"])
        if not sched:
            ctx.probe("bad_config_without_rebalance")
            return
        ok = out.exc is not None and out.exc[0] == "ValueError" and not out.rec.txns
        ctx.check(prop, ok, "negative_weight_not_rejected",
                  lambda: {"exc": out.exc, "fills": len(out.rec.txns), "weights": plan["cfg"]["alpha"]["weights"]})
        return
    ok = out.ctor_exc is not None and out.ctor_exc[0] == "ValueError"
    ctx.check(prop, ok, "invalid_configuration_not_rejected:" + bad,
              lambda: {"bad": bad, "ctor_exc": out.ctor_exc, "run_exc": out.exc,
                       "cash_buffer": plan["cfg"]["cash_buffer"], "leverage": plan["cfg"]["leverage"],
                       "weekday": plan["cfg"].get("weekday")})


def reference_pcm_instants(cfg):
    start, end = cfg["start"], cfg["end"]
    evt = set(t for t, _ in cal.engine_events(start, end))
    burn = cfg["burn_in"]
    return [t for t in cal.schedule(cfg["rebalance"], start, end, wd=cfg.get("weekday"))
            if t in evt and (burn is None or t >= burn)]


def truncated_by_exception(out):
    return out.exc is not None


# ---------------------------------------------------------------------------
def judge_c12(cfg, out, ctx):
    want = cal.engine_events(cfg["start"], cfg["end"])
    got = out.rec.events
    if out.exc is not None:
        want = want[:len(got)]
    ctx.check("C12", got == want, "session_clock_differs_from_calendar",
              lambda: {"n_got": len(got), "n_want": len(want),
                       "first_diff": next(((iso(a[0]), a[1], iso(b[0]), b[1]) for a, b in zip(got, want) if a != b), None)})


def judge_c13(cfg, out, ctx):
    want = cal.schedule(cfg["rebalance"], cfg["start"], cfg["end"], wd=cfg.get("weekday"))
    got = [epoch(t) for t in out.session.rebalance_schedule]
    if not ctx.check("C13", got == want, "session_schedule_differs_from_calendar",
                     lambda: {"kind": cfg["rebalance"], "weekday": cfg.get("weekday"), "n_got": len(got),
                              "n_want": len(want), "got": [iso(x) for x in got[:4]], "want": [iso(x) for x in want[:4]]},
                     sig="session_schedule_differs_from_calendar:" + cfg["rebalance"]):
        return
    # every scheduled instant that the clock emits (and that is not before burn-in) produced a rebalance
    fired = [p["t"] for p in out.rec.pcm]
    exp = reference_pcm_instants(cfg)
    if out.exc is not None:
        exp = [t for t in exp if t <= (out.exc_at or 0)]
        fired = fired[:len(exp)]
    if cfg["rebalance"] != "buy_and_hold":
        seen_ = set(t2 for t2, _ in out.rec.events)
        lost = [t for t in want if t not in seen_]
        if out.exc is None:
            ctx.check("C13", not lost, "scheduled_instant_never_met_the_clock",
                      lambda: {"instants": [iso(x) for x in lost[:5]]})
    ctx.check("C13", fired == exp, "scheduled_rebalance_silently_skipped",
              lambda: {"fired": [iso(x) for x in fired[:6]], "expected": [iso(x) for x in exp[:6]],
                       "n_fired": len(fired), "n_expected": len(exp)})


# ---------------------------------------------------------------------------
def judge_c14(cfg, market, out, ctx):
    P = "C14"
    ref = RefPrices(market)
    events = cal.engine_events(cfg["start"], cfg["end"])
    burn = cfg["burn_in"]
    exp_pcm = reference_pcm_instants(cfg)
    fired = [p["t"] for p in out.rec.pcm]
    cut = None
    if out.exc is not None:
        cut = out.exc_at
        exp_pcm = [t for t in exp_pcm if cut is not None and t <= cut]
        events = [(t, k) for t, k in events if cut is not None and t <= cut]
    if burn is not None and exp_pcm and burn == exp_pcm[0]:
        ctx.probe("burn_in_exactly_on_rebalance_instant")
    if not ctx.check(P, fired == exp_pcm, "portfolio_construction_not_exactly_at_scheduled_instants_after_burn_in",
                     lambda: {"fired": [iso(x) for x in fired[:8]], "expected": [iso(x) for x in exp_pcm[:8]],
                              "n_fired": len(fired), "n_expected": len(exp_pcm),
                              "burn_in": iso(burn) if burn is not None else None, "kind": cfg["rebalance"]},
                     sig="portfolio_construction_not_exactly_at_scheduled_instants_after_burn_in"):
        return
    if out.exc is None:
        ad = [d["Date"] for d in out.allocs]
        if not ctx.check(P, ad == exp_pcm, "allocation_record_dates_differ_from_rebalances",
                         lambda: {"alloc_dates": [iso(x) for x in ad[:8]], "expected": [iso(x) for x in exp_pcm[:8]]}):
            return
    # fills: only at market-open events, none before the first rebalance
    opens = set(t for t, k in events if k == "market_open")
    first = exp_pcm[0] if exp_pcm else None
    for x in out.rec.txns:
        if not ctx.check(P, x["t"] in opens, "fill_not_at_a_market_open_event",
                         lambda: {"t": iso(x["t"]), "asset": x["asset"]}, sig="fill_not_at_a_market_open_event"):
            return
        if not ctx.check(P, first is not None and x["t"] >= first, "fill_before_first_rebalance",
                         lambda: {"t": iso(x["t"]), "first_rebalance": iso(first) if first else None,
                                  "burn_in": iso(burn) if burn is not None else None},
                         sig="fill_before_first_rebalance"):
            return
    # equity curve: one point per business day whose close lies in [burn-in or start, end]
    exp_eq = [t for t, k in events if k == "market_close" and (burn is None or t >= burn)]
    got_eq = [t for t, _ in out.equity]
    if not ctx.check(P, got_eq == exp_eq, "equity_curve_dates",
                     lambda: {"n_got": len(got_eq), "n_expected": len(exp_eq), "got": [iso(x) for x in got_eq[:4]],
                              "expected": [iso(x) for x in exp_eq[:4]],
                              "burn_in": iso(burn) if burn is not None else None},
                     sig="equity_curve_dates"):
        return
    cash = frac(cfg["initial_cash"])
    gross = abs(cash)
    hold = {}
    txns = sorted(out.rec.txns, key=lambda x: x["t"])
    i = 0
    for t, v in out.equity:
        while i < len(txns) and txns[i]["t"] <= t:
            x = txns[i]
            cash -= frac(x["price"]) * x["qty"] + frac(x["comm"])
            gross += abs(frac(x["price"]) * x["qty"])
            hold[x["asset"]] = hold.get(x["asset"], 0) + x["qty"]
            i += 1
        tot = cash + frac(cfg.get("sleeve") or 0)      # the account's equity includes any other funded portfolio
        nan = False
        for a, q in hold.items():
            p = ref.price(a, t)
            if p != p:
                nan = True
                break
            tot += frac(p) * q
        if nan:
            ctx.probe("c14_equity_point_out_of_domain")
            continue
        if not ctx.check(P, close(v, tot, scale=gross), "equity_point_not_marked_at_that_days_close",
                         lambda: {"t": iso(t), "impl": v, "recomputed": float(tot)},
                         sig="equity_point_not_marked_at_that_days_close"):
            return
    if out.exc is not None:
        return
    if not out.equity:
        # no close lies in [burn-in, end]: the tables are degenerate, outside the property's quantifier
        ctx.probe("empty_equity_curve:tables_not_judged")
        return
    # the public tables
    try:
        eq_df = out.session.get_equity_curve()
    except Exception as e:
        from qsim.core import raised_in_repo as _rir
        if not _rir(e):
            raise          # a bug of the harness: exit 2, never a verdict
        ctx.violate(P, "get_equity_curve_raised", {"exc": repr(e)[:200]})
        return
    ctx.check(P, len(eq_df) == len(out.equity) and
              all(fhex(a) == fhex(b) for a, (_, b) in zip(list(eq_df["Equity"]), out.equity)) and
              [cal.epoch_day(d.year, d.month, d.day) for d in eq_df.index] == [t // DAY for t, _ in out.equity],
              "equity_table_differs_from_curve", lambda: {"rows": len(eq_df), "points": len(out.equity)})
    if not out.allocs or not out.equity:
        ctx.probe("no_rebalance_or_no_equity_point:allocation_table_not_judged")
        return
    try:
        al = out.session.get_target_allocations()
    except Exception as e:
        from qsim.core import raised_in_repo as _rir
        if not _rir(e):
            raise          # a bug of the harness: exit 2, never a verdict
        ctx.violate(P, "get_target_allocations_raised", {"exc": repr(e)[:300]},
                    sig="get_target_allocations_raised:" + type(e).__name__)
        return
    days = [t // DAY for t, _ in out.equity]
    got_days = [cal.epoch_day(d.year, d.month, d.day) for d in al.index]
    if not ctx.check(P, got_days == days, "allocation_table_dates_differ_from_equity_dates",
                     lambda: {"n_table": len(got_days), "n_equity": len(days)}):
        return
    cols = [c for c in al.columns]
    k = -1
    for r, d in enumerate(days):
        while k + 1 < len(out.allocs) and out.allocs[k + 1]["Date"] // DAY <= d:
            k += 1
        for c in cols:
            v = float(al.iloc[r][c])
            want = float("nan") if k < 0 else float(out.allocs[k].get(c, float("nan")))
            if not ctx.check(P, fhex(v) == fhex(want), "allocation_table_row_is_not_latest_rebalance",
                             lambda: {"date": d, "asset": c, "table": v, "latest_rebalance_weight": want},
                             sig="allocation_table_row_is_not_latest_rebalance"):
                return


# ---------------------------------------------------------------------------
def judge_c16(cfg, market, out, ctx):
    P = "C16"
    if out.session.signals is None:
        ctx.probe("c16_no_signals_in_this_configuration")
        return
    from .signal import ref_value
    ref = RefPrices(market)
    if cfg.get("signals_adjust") is not None:
        ref = RefPrices(dict(market, adjust=cfg["signals_adjust"]))
        ctx.probe("signals_on_a_data_handler_of_their_own")
    events = out.rec.events
    names = sorted(out.session.signals.signals.keys())
    u = cfg["universe"]
    start = cfg["start"]
    for name in names:
        by_ev = {}
        for ev, nm, asset, price in out.rec.appends:
            if nm == name:
                by_ev.setdefault(ev, []).append((asset, price))
        members = set(rb.universe_at(cfg, start))
        hist = {}
        for i, (t, typ) in enumerate(events):
            got = by_ev.get(i, [])
            if typ != "market_close":
                if not ctx.check(P, not got, "signal_observation_outside_market_close",
                                 lambda: {"signal": name, "t": iso(t), "event": typ, "n": len(got)},
                                 sig="signal_observation_outside_market_close"):
                    return
                continue
            newcomers = set(rb.universe_at(cfg, t)) - members
            if newcomers:
                ctx.probe("asset_entered_universe_during_run", len(newcomers))
            members |= newcomers
            if out.exc is not None and i == len(events) - 1:
                continue     # the failing event may be partial
            got_assets = sorted(a for a, _ in got)
            if not ctx.check(P, got_assets == sorted(members), "not_exactly_one_observation_per_asset_per_close",
                             lambda: {"signal": name, "t": iso(t), "got": got_assets, "expected": sorted(members)},
                             sig="not_exactly_one_observation_per_asset_per_close"):
                return
            for a, p in got:
                want = ref.price(a, t)
                if not ctx.check(P, close(p, want, scale=abs(want) if want == want else 0.0, rel=1e-12, abs_=1e-12),
                                 "observation_is_not_that_days_close",
                                 lambda: {"signal": name, "asset": a, "t": iso(t), "got": p, "close": want},
                                 sig="observation_is_not_that_days_close"):
                    return
                hist.setdefault(a, []).append(p)
                if a in newcomers and len(hist[a]) == 1:
                    ctx.probe("late_entrant_first_observation_at_first_close_after_entry")
        # window content = tail of the (possibly shorter) history: query the real signal now
        if out.exc is not None:
            continue
        sig = out.session.signals.signals[name]
        kind = {"momentum": "mom", "sma": "sma", "vol": "vol"}[name]
        lbs = [cfg["alpha"]["lookback"]] if name != "sma" else [cfg["alpha"]["short"], cfg["alpha"]["long"]]
        for a, h in sorted(hist.items()):
            if any(x != x for x in h):
                ctx.probe("c16_out_of_domain_nan_in_stream")
                continue
            for n in lbs:
                try:
                    got = float(sig(a, n))
                except Exception as e:
                    from qsim.core import raised_in_repo as _rir
                    if not _rir(e):
                        raise          # a bug of the harness: exit 2, never a verdict
                    ctx.violate(P, "signal_query_raised", {"signal": name, "asset": a, "exc": repr(e)[:200]})
                    return
                want = ref_value(kind, h, n)
                if want is None:
                    continue
                if not ctx.check(P, close(got, want, scale=max(abs(want), 1.0) if kind != "sma" else abs(want),
                                          rel=1e-9, abs_=1e-12),
                                 "signal_value_differs_from_definition_on_session_history",
                                 lambda: {"signal": name, "asset": a, "lookback": n, "got": got, "definition": want,
                                          "n_observations": len(h)},
                                 sig="signal_value_differs_from_definition_on_session_history:" + kind):
                    return


# ---------------------------------------------------------------------------
def plan_is_bad(cfg):
    """Configurations the generator made invalid on purpose (negative long-only weights, bad leverage, ...)."""
    return bool(cfg.get("bad")) or (cfg["long_only"] and cfg["alpha"]["kind"] == "fixed" and
                                    any(v < 0 for v in cfg["alpha"]["weights"].values())) or \
        ((not cfg["long_only"]) and not (cfg["leverage"] > 0))


def judge_c19(cfg, market, out, ctx):
    P = "C19"
    u = cfg["universe"]
    if u["kind"] == "leaving":
        ctx.probe("c19_custom_universe:not_judged")     # the property speaks about the two shipped universes
        return
    entries = u.get("entries") if u["kind"] == "dynamic" else None
    # "included from the first such rebalance onward": a rebalance that FAILS although every asset it has to size -
    # universe members (newcomers among them), holdings, weighted assets - has a price at that instant
    if (entries is not None and out.exc is not None and out.rec.pcm and out.rec.pcm[-1]["exc"] is not None
            and not plan_is_bad(cfg)):
        last = out.rec.pcm[-1]
        t = last["t"]
        ref = RefPrices(market)
        w_keys = set()
        sz = last.get("sizer")
        if sz and sz.get("weights"):
            w_keys = set(sz["weights"])
        need = set(rb.universe_at(cfg, t)) | set(last["held"]) | w_keys
        newcomers = [a for a in rb.universe_at(cfg, t) if entries.get(a) is not None and entries[a] > cfg["start"]]
        priced = all(ref.price(a, t) == ref.price(a, t) for a in need)
        if newcomers and priced and last["exc"] in ("ValueError", "KeyError"):
            ctx.violate(P, "rebalance_failed_although_every_member_has_a_price",
                        {"t": iso(t), "exc": out.exc, "members": sorted(rb.universe_at(cfg, t)), "entered_after_start": newcomers},
                        sig="rebalance_failed_although_every_member_has_a_price")
            return
    first_pcm_for = {}
    for p in out.rec.pcm:
        t = p["t"]
        want = rb.universe_at(cfg, t)
        if u["kind"] == "static":
            if not ctx.check(P, list(p["universe"]) == list(want), "static_universe_not_its_configured_list",
                             lambda: {"t": iso(t), "got": p["universe"], "want": want}):
                return
        else:
            if not ctx.check(P, sorted(p["universe"]) == sorted(want), "universe_membership_differs_from_entry_dates",
                             lambda: {"t": iso(t), "got": sorted(p["universe"]), "want": sorted(want),
                                      "entries": dict((a, iso(e) if e is not None else None) for a, e in entries.items())},
                             sig="universe_membership_differs_from_entry_dates"):
                return
            for a, e in entries.items():
                if e is not None and e == t:
                    ctx.probe("entry_exactly_on_rebalance_instant")
                if e is not None and e == t + 60:
                    ctx.probe("entry_one_minute_after_rebalance_instant")
        for a in want:
            first_pcm_for.setdefault(a, t)
    if entries is None:
        return
    uni_driven = cfg["alpha"]["kind"] in ("single", "topn", "sma", "invvol")
    if not uni_driven:
        ctx.probe("c19_alpha_not_universe_driven:trade_checks_skipped")
        return
    # allocations: non-zero weight only to members; with the single-signal model to exactly the members
    for i, d in enumerate(out.allocs):
        t = d["Date"]
        members = set(rb.universe_at(cfg, t))
        nz = set(k for k, v in d.items() if k != "Date" and v != 0.0)
        if cfg["alpha"]["kind"] == "single":
            okw = (nz == members)
        else:
            okw = nz <= members
        if not ctx.check(P, okw, "weight_for_asset_outside_universe_or_member_without_weight",
                         lambda: {"t": iso(t), "nonzero": sorted(nz), "members": sorted(members)},
                         sig="weight_for_asset_outside_universe_or_member_without_weight"):
            return
        for a, e in entries.items():
            if e is None:
                if not ctx.check(P, a not in d, "asset_without_entry_date_in_allocation",
                                 lambda: {"asset": a, "t": iso(t)}):
                    return
    # orders / fills / positions only from the first rebalance at or after the entry
    for p in out.rec.pcm:
        for (a, q, _c) in (p["orders"] or []):
            e = entries.get(a)
            if not ctx.check(P, e is not None and e <= p["t"], "order_for_asset_before_its_universe_entry",
                             lambda: {"asset": a, "t": iso(p["t"]), "entry": iso(e) if e is not None else None},
                             sig="order_for_asset_before_its_universe_entry"):
                return
    for x in out.rec.txns:
        e = entries.get(x["asset"])
        f = first_pcm_for.get(x["asset"])
        if not ctx.check(P, e is not None and f is not None and x["t"] >= f and x["t"] >= e,
                         "fill_for_asset_before_first_rebalance_after_entry",
                         lambda: {"asset": x["asset"], "t": iso(x["t"]), "entry": iso(e) if e is not None else None,
                                  "first_rebalance_with_membership": iso(f) if f else None},
                         sig="fill_for_asset_before_first_rebalance_after_entry"):
            return
    # included from the first such rebalance onward: an order at that rebalance when its target is non-zero
    for si, s in enumerate(out.rec.sizer):
        if s["result"] is None or si >= len(out.rec.pcm) or out.rec.pcm[si]["orders"] is None:
            continue
        t = s["t"]
        ordered = set(a for a, _, _ in out.rec.pcm[si]["orders"])
        for a in rb.universe_at(cfg, t):
            if first_pcm_for.get(a) == t and s["result"].get(a, 0) != 0 and out.rec.pcm[si]["held"].get(a, 0) == 0:
                if not ctx.check(P, a in ordered, "member_not_traded_at_first_rebalance_after_entry",
                                 lambda: {"asset": a, "t": iso(t), "target": s["result"].get(a)},
                                 sig="member_not_traded_at_first_rebalance_after_entry"):
                    return
                ctx.probe("asset_ordered_at_first_rebalance_after_entry")


# ---------------------------------------------------------------------------
def judge_c09(cfg, market, out, ctx):
    P = "C09"
    events = out.rec.events
    txns = sorted(out.rec.txns, key=lambda x: (x["t"], x["ev"]))
    for i in range(len(out.rec.pcm)):
        p = out.rec.pcm[i]
        s = p.get("sizer")
        if p["orders"] is None or s is None or s["result"] is None:
            ctx.probe("c09_rebalance_raised:" + str(p["exc"]))
            continue
        if s.get("bypassed"):
            ctx.probe("construction_model_bypassed_the_sizer")
        t = p["t"]
        # holdings from the captured fills strictly before this call (the broker's own report is C02's)
        held = {}
        for x in txns:
            if x["seq"] < p["seq"]:
                held[x["asset"]] = held.get(x["asset"], 0) + x["qty"]
        held = dict((a, q) for a, q in held.items() if q != 0)
        target = dict(s["result"])
        weights = p.get("alpha") or {}
        want_assets = set(p["universe"]) | set(held) | set(weights)
        stray = [a for a, q in target.items() if a not in want_assets and q != 0]
        if not ctx.check(P, not stray, "target_for_asset_outside_universe_held_weighted",
                         lambda: {"t": iso(t), "assets": stray, "target": target, "expected": sorted(want_assets)},
                         sig="target_for_asset_outside_universe_held_weighted"):
            return
        exp = [(a, target.get(a, 0) - held.get(a, 0)) for a in sorted(set(target) | set(held))
               if target.get(a, 0) - held.get(a, 0) != 0]
        got = [(a, q) for a, q, _ in p["orders"]]
        if not ctx.check(P, got == exp, "orders_not_target_minus_holdings",
                         lambda: {"t": iso(t), "orders": got, "expected": exp, "held": held, "target": target},
                         sig="orders_not_target_minus_holdings"):
            return
        ctx.check(P, all(c == t for _, _, c in p["orders"]), "order_creation_time_not_rebalance_time",
                  lambda: {"t": iso(t)})
        unweighted_held = [a for a in held if a not in weights]
        if unweighted_held:
            ctx.probe("held_asset_without_weight_liquidated")
            ctx.check(P, all(target.get(a, 0) == 0 for a in unweighted_held), "held_asset_without_weight_not_liquidated",
                      lambda: {"t": iso(t), "assets": unweighted_held, "target": target})
        if i < len(out.allocs):
            d = out.allocs[i]
            keys = set(k for k in d if k != "Date")
            okk = (d["Date"] == t and keys == want_assets and
                   all((d[a] == 0.0) for a in want_assets if a not in weights) and
                   all(fhex(d[a]) == fhex(float(weights[a])) for a in want_assets if a in weights))
            if not ctx.check(P, okk, "recorded_target_allocation_wrong",
                             lambda: {"t": iso(t), "recorded": d, "weights": weights, "expected_assets": sorted(want_assets)},
                             sig="recorded_target_allocation_wrong"):
                return
        # once those orders fill, holdings equal the target
        fill_ev = None
        if is_open_ref(t):
            fill_ev = p["ev"]
        else:
            for j in range(p["ev"] + 1, len(events)):
                if events[j][1] == "market_open":
                    fill_ev = j
                    break
        if fill_ev is None or (out.exc is not None and fill_ev >= len(events) - 1):
            continue
        after = {}
        for x in txns:
            if x["ev"] <= fill_ev:
                after[x["asset"]] = after.get(x["asset"], 0) + x["qty"]
        after = dict((a, q) for a, q in after.items() if q != 0)
        want_after = dict((a, q) for a, q in target.items() if q != 0)
        if not ctx.check(P, after == want_after, "holdings_after_fills_differ_from_target",
                         lambda: {"rebalance": iso(t), "fills_at": iso(events[fill_ev][0]), "holdings": after,
                                  "target": want_after},
                         sig="holdings_after_fills_differ_from_target"):
            return


# ---------------------------------------------------------------------------
def judge_sizer(cfg, out, ctx, P):
    """C10 / C11 in-run monitor: every sizer call made by the simulated system."""
    long_only = cfg["long_only"]
    if (P == "C10") != long_only:
        return
    rate = rb.fee_rate(cfg)
    f = float(rate)
    for s in out.rec.sizer:
        w = s["weights"]
        if "seam_exc" in s:
            ctx.probe("sizer_seam_failed")
            continue
        E, prices = s["equity"], s["prices"]
        nan_price = [a for a in w if prices[a] != prices[a]]
        neg = [a for a in w if w[a] < 0]
        if nan_price:
            ctx.fault("nan_price_for_sized_asset")
            ctx.check(P, s["exc"] == "ValueError", "unavailable_price_not_rejected",
                      lambda: {"t": iso(s["t"]), "assets": nan_price, "exc": s["exc"], "result": s["result"]},
                      sig="unavailable_price_not_rejected")
            continue
        if long_only and neg:
            ctx.check(P, s["exc"] == "ValueError", "negative_weight_not_rejected",
                      lambda: {"t": iso(s["t"]), "assets": neg, "exc": s["exc"]})
            continue
        if s["result"] is None:
            ctx.violate(P, "sizer_raised_on_valid_input", {"t": iso(s["t"]), "exc": s["exc"], "weights": w,
                                                           "equity": E, "prices": prices},
                        sig="sizer_raised_on_valid_input")
            return
        if not (E > 0) or any(not (p > 0) for p in prices.values()):
            ctx.probe("sizer_out_of_domain")
            continue
        res = dict(s["result"])
        stray = [a for a, q in res.items() if a not in w and q != 0]
        if not ctx.check(P, not stray, "target_for_asset_without_weight", lambda: {"assets": stray, "res": res}):
            return
        for a in w:
            res.setdefault(a, 0)        # an asset left out of the target has a target of zero
        if not ctx.check(P, all(isinstance(q, int) and not isinstance(q, bool) for q in res.values()),
                         "target_quantity_not_a_whole_number",
                         lambda: {"types": dict((a, type(q).__name__) for a, q in res.items())}):
            return
        if long_only:
            ws = sum(w.values())
            if 0 < ws < 1e-6:
                ctx.probe("sizer_out_of_domain_tiny_weight_sum")
                continue
            b = cfg["cash_buffer"]
            sized = rb.size_long_only(E, b, rate, w, lambda a: prices[a])
            tot = 0.0
            for a in sorted(w):
                cands, alloc, x = sized[a]
                q = res[a]
                if not ctx.check(P, q >= 0, "negative_long_only_quantity", lambda: {"asset": a, "q": q}):
                    return
                if not ctx.check(P, q in cands, "quantity_is_not_the_largest_affordable_within_the_buffered_share",
                                 lambda: {"t": iso(s["t"]), "asset": a, "quantity": q, "largest_affordable": sorted(cands),
                                          "share_of_buffered_equity": float(alloc), "price": prices[a], "fee_rate": f,
                                          "equity": E, "buffer": b, "weights": w},
                                 sig="quantity_is_not_the_largest_affordable_within_the_buffered_share"):
                    return
                tot += q * prices[a]
            if not ctx.check(P, tot <= (1.0 - b) * E * (1 + 1e-9) + 1e-6, "whole_target_costs_more_than_buffered_equity",
                             lambda: {"cost": tot, "budget": (1.0 - b) * E}):
                return
            if all(v == 0 for v in w.values()):
                ctx.probe("all_zero_weights")
                ctx.check(P, all(q == 0 for q in res.values()), "all_zero_weights_not_all_zero_target", lambda: res)
        else:
            L = cfg["leverage"]
            gw = sum(abs(v) for v in w.values())
            if 0 < gw < 1e-6:
                ctx.probe("sizer_out_of_domain_tiny_weight_sum")
                continue
            tot = 0.0
            for a in sorted(w):
                q = res[a]
                p = prices[a]
                wa = w[a]
                alloc = 0.0 if gw == 0 else E * wa * L / gw
                sgn = int(q > 0) - int(q < 0)
                swa = int(wa > 0) - int(wa < 0)
                if not ctx.check(P, sgn in (0, swa), "quantity_sign_differs_from_weight_sign",
                                 lambda: {"asset": a, "q": q, "w": wa}, sig="quantity_sign_differs_from_weight_sign"):
                    return
                tol = 1e-9 * abs(alloc) + 1e-6
                lim = abs(alloc) * (1 + f) if alloc < 0 else abs(alloc)
                if not ctx.check(P, abs(q) * p <= lim + tol, "quantity_exceeds_leverage_scaled_allocation",
                                 lambda: {"t": iso(s["t"]), "asset": a, "q": q, "price": p, "allocation": alloc,
                                          "fee_rate": f}, sig="quantity_exceeds_leverage_scaled_allocation"):
                    return
                if not ctx.check(P, (abs(q) + 1) * p > abs(alloc) * (1 - f) - 1.0 - tol,
                                 "quantity_not_largest_affordable_within_one_currency_unit",
                                 lambda: {"t": iso(s["t"]), "asset": a, "q": q, "price": p, "allocation": alloc,
                                          "fee_rate": f}, sig="quantity_not_largest_affordable_within_one_currency_unit"):
                    return
                tot += abs(q) * p
            if not ctx.check(P, tot <= L * E * (1 + f) * (1 + 1e-9) + 1e-6, "gross_exposure_exceeds_leverage_bound",
                             lambda: {"gross": tot, "bound": L * E * (1 + f)}):
                return
            if gw == 0:
                ctx.probe("all_zero_weights")
                ctx.check(P, all(q == 0 for q in res.values()), "all_zero_weights_not_all_zero_target", lambda: res)


SHRINK_LISTS = ()


def simplifications(plan):
    """Shorter ranges, fewer assets, zero fees, no burn-in, denser data."""
    import copy
    cfg = plan["cfg"]
    start, end = cfg["start"], cfg["end"]
    span = (end - start) // DAY
    for new_span in (span // 2, span * 3 // 4, span - 7, span - 1):
        if 1 <= new_span < span:
            p = copy.deepcopy(plan)
            p["cfg"]["end"] = (start // DAY + new_span) * DAY + sl.END_TOD
            yield p
    if cfg["fee"]["kind"] != "zero":
        p = copy.deepcopy(plan)
        p["cfg"]["fee"] = {"kind": "zero"}
        yield p
    if cfg["burn_in"] is not None:
        p = copy.deepcopy(plan)
        p["cfg"]["burn_in"] = None
        yield p
    if cfg["data_via"] != "handler_symbols":
        p = copy.deepcopy(plan)
        p["cfg"]["data_via"] = "handler_symbols"
        yield p
    syms = sorted(plan["market"]["assets"])
    if len(syms) > 1:
        for s in syms:
            a = "EQ:" + s
            p = copy.deepcopy(plan)
            del p["market"]["assets"][s]
            p["market"].get("applied", {}).pop(s, None)
            u = p["cfg"]["universe"]
            if u["kind"] in ("static", "leaving"):
                u["assets"] = [x for x in u["assets"] if x != a]
                if u["kind"] == "leaving":
                    u["leave"].pop(a, None)
                if not u["assets"]:
                    continue
            else:
                u["entries"].pop(a, None)
                if not u["entries"]:
                    continue
            if p["cfg"]["alpha"]["kind"] == "fixed":
                p["cfg"]["alpha"]["weights"].pop(a, None)
                if not p["cfg"]["alpha"]["weights"]:
                    continue
            if p["cfg"]["alpha"]["kind"] == "topn":
                p["cfg"]["alpha"]["n"] = max(1, min(p["cfg"]["alpha"]["n"], len(syms) - 1))
            yield p
    if cfg["initial_cash"] != 1e6:
        p = copy.deepcopy(plan)
        p["cfg"]["initial_cash"] = 1e6
        yield p

"""CLOCK world: the real DailyBusinessDaySimulationEngine and the four *Rebalance schedule classes,
sampled differentially against the independent reference calendar (C12, C13).

This is the state-free corner of the technique: no faults except invalid ranges/weekdays.
"""
import zlib

from ..core import Ctx, StopRun, ts, epoch, DAY, OPEN_S, CLOSE_S, iso, raised_in_repo
from .. import calendar_ref as cal

NAME = "clock"
ISOLATE = "fork"
PROPS = ("C12", "C13")
CHUNK = {"quick": 40, "thorough": 40}
RULE = ("(weekday of start, weekday of end, range-length class, start time-of-day, pre/post flags, schedule kind "
        "and weekday, pre-market flag, fault kind)")

TODS = [0, 9 * 3600 + 15 * 60, OPEN_S, CLOSE_S, 23 * 3600 + 59 * 60]
LENGTHS = [0, 1, 2, 3, 5, 8, 20, 40, 90, 400]


def generate(rng, focus, tier="quick"):
    r = rng.random()
    if r < 0.1:
        y = rng.choice([2000, 2004, 2008, 2012, 2016, 2020, 2024])
        d0 = cal.epoch_day(y, 2, rng.randrange(25, 30))
    elif r < 0.2:
        y = rng.randrange(1999, 2025)
        d0 = cal.epoch_day(y, 12, rng.randrange(26, 32))
    elif r < 0.35:
        y = rng.randrange(1999, 2025)
        m = rng.randrange(1, 13)
        import calendar
        d0 = cal.epoch_day(y, m, calendar.monthrange(y, m)[1]) - rng.randrange(0, 4)
    elif r < 0.40:
        # far dates: century years without a leap day, years before 1970 (negative epoch), the 22nd century
        y = rng.choice([1900, 1900, 2100, 2100, 1899, 1950, 1962, 1969, 1970, 2000, 2200, 4, 50, 98, 99, 100, 999, 1000])
        d0 = cal.epoch_day(y, rng.choice([1, 2, 2, 2, 3, 12]), rng.randrange(1, 28))
    else:
        d0 = rng.randrange(cal.epoch_day(1999, 1, 1), cal.epoch_day(2024, 12, 1))
    length = rng.choice(LENGTHS) if tier == "quick" else rng.choice(LENGTHS + [800, 1500])
    very_long = False
    if rng.random() < (0.01 if tier == "thorough" else 0.0015):
        # nearly three centuries in one range: more days than a nanosecond-based day offset can express
        very_long = True
        d0 = cal.epoch_day(rng.choice([1690, 1700, 1750]), 1, rng.randrange(1, 28))
        length = rng.choice([106752, 107000, 110000])
    if rng.random() < 0.03 and not very_long:
        # the last days any date type can hold: ranges ending on, or just before, 9999-12-31
        last_day = cal.epoch_day(9999, 12, 31)
        length = rng.choice([0, 1, 2, 3, 5, 8, 20])
        d0 = last_day - length - rng.choice([0, 0, 0, 1, 2])
    if rng.random() < 0.1:
        # weekend-only range
        while cal.day_weekday(d0) != 5:
            d0 += 1
        length = rng.choice([0, 1])
    if d0 + length > cal.epoch_day(9999, 12, 31):
        d0 = cal.epoch_day(9999, 12, 31) - length - 7 + (d0 % 7)      # stay inside the date range, same weekday
    stod = rng.choice(TODS)
    etod = rng.choice([t for t in TODS if t >= stod])
    start = d0 * DAY + stod
    end = (d0 + length) * DAY + etod
    # sub-minute parts of the start's time of day (seconds / microseconds); the end's time of day stays >= it
    sub_s, sub_us = 0, 0
    if rng.random() < 0.3 and stod < 23 * 3600 + 59 * 60:
        sub_s = rng.choice([0, 1, 30, 59])
        sub_us = rng.choice([0, 0, 1, 250000, 999999])
        start += sub_s
        if end % DAY < start % DAY + 1:
            end = (end // DAY) * DAY + (start % DAY) + 1
    plan = {"world": NAME, "start": start, "end": end, "start_us": sub_us, "pre": rng.random() < 0.5,
            "unit": rng.choice(["s", "s", "ns", "us", "ms"]),       # resolution of the Timestamp objects handed over
            "pm_type": rng.choice(["bool", "bool", "numpy", "int"]),
            "post": rng.random() < 0.5, "wd": rng.choice(cal.WEEKDAYS), "pm": rng.random() < 0.3, "fault": None}
    if rng.random() < 0.3:
        plan["wd"] = plan["wd"].lower() if rng.random() < 0.7 else plan["wd"].capitalize()
    # other clocks and schedules created and used earlier in the same process: they must not matter
    # process-global standard-library state a host application may have changed
    plan["firstweekday"] = rng.choice([0, 0, 0, 0, 6, 2])
    plan["before"] = []
    for _ in range(rng.choice([0, 0, 1, 2, 3])):
        bd = rng.randrange(cal.epoch_day(1999, 1, 1), cal.epoch_day(2024, 12, 1))
        plan["before"].append({"start": bd * DAY + rng.choice(TODS[:3]), "end": (bd + rng.choice([0, 3, 10, 40])) * DAY + TODS[-1],
                               "pre": rng.random() < 0.5, "post": rng.random() < 0.5,
                               "wd": rng.choice(cal.WEEKDAYS), "pm": rng.random() < 0.3})
    # several clock iterators alive at once, advanced under a seeded schedule: 0 and 1 iterate the judged clock,
    # 2 iterates another clock object (shifted range, other flags)
    plan["clone"] = rng.choice(["copy", "deepcopy", "pickle"])
    plan["interleave"] = None
    if rng.random() < 0.5:
        n_it = rng.choice([2, 3, 3])
        plan["interleave"] = {"n": n_it, "shift_days": rng.choice([0, 1, 1, 2, 7]),
                              "pre2": rng.random() < 0.5, "post2": rng.random() < 0.5,
                              "schedule": [rng.randrange(n_it) for _ in range(rng.choice([6, 12, 24, 48]))]}
    if very_long:
        plan["before"] = []
        plan["interleave"] = None
    r = rng.random()
    if r < 0.06:
        plan["fault"] = "end_before_start"
        plan["end"] = start - rng.choice([1, 60, 3600, DAY, 30 * DAY])
    elif r < 0.12:
        plan["fault"] = "bad_weekday"
        plan["wd"] = rng.choice(["SAT", "SUN", "XYZ", "sat", "", "MONDAY", "WE", "MON\n", "wed\n", " TUE", "FRI ", "Fri\n"])
        if rng.random() < 0.4:
            # pieces of the valid names run together: every 2..4-letter window that is not itself a weekday
            packed = rng.choice(["MONTUEWEDTHUFRI", "MON,TUE,WED,THU,FRI", "MONTUEWEDTHUFRISATSUN", "montuewedthufri"])
            k = rng.choice([2, 3, 3, 3, 4])
            i = rng.randrange(0, len(packed) - k + 1)
            cand = packed[i:i + k]
            if cand.upper() not in cal.WEEKDAYS:
                plan["wd"] = cand
    return plan


def execute(plan, focus, trace=False):
    from ..core import apply_host_state
    apply_host_state(plan)
    import calendar as _calendar
    ctx = Ctx(focus, trace=trace)
    old_fwd = _calendar.firstweekday()
    try:
        if plan.get("firstweekday"):
            _calendar.setfirstweekday(plan["firstweekday"])
            ctx.fault("calendar_firstweekday_changed_by_host")
        _run(plan, ctx)
    except StopRun:
        pass
    finally:
        _calendar.setfirstweekday(old_fwd)
    return ctx


def _run(plan, ctx):
    from qstrader.simulation.daily_bday import DailyBusinessDaySimulationEngine
    from qstrader.system.rebalance.weekly import WeeklyRebalance
    from qstrader.system.rebalance.daily import DailyRebalance
    from qstrader.system.rebalance.end_of_month import EndOfMonthRebalance
    from qstrader.system.rebalance.buy_and_hold import BuyAndHoldRebalance
    for b in plan.get("before", []):
        try:
            list(DailyBusinessDaySimulationEngine(ts(b["start"]), ts(b["end"]), pre_market=b["pre"], post_market=b["post"]))
            WeeklyRebalance(ts(b["start"]), ts(b["end"]), b["wd"], pre_market=b["pm"])
            DailyRebalance(ts(b["start"]), ts(b["end"]), pre_market=b["pm"])
            EndOfMonthRebalance(ts(b["start"]), ts(b["end"]), pre_market=b["pm"])
            BuyAndHoldRebalance(ts(b["start"]))
        except Exception:
            pass
        ctx.fault("earlier_clock_in_same_process")
    start, end = plan["start"], plan["end"]
    S, E = ts(start), ts(end)
    if plan.get("start_us"):
        import pandas as pd
        S = S + pd.Timedelta(microseconds=int(plan["start_us"]))
        ctx.probe("start_with_microseconds")
    if start % 60:
        ctx.probe("start_with_seconds")
    unit = plan.get("unit", "s")
    if unit != "s" and not (unit == "ms" and plan.get("start_us")):
        try:
            S, E = S.as_unit(unit), E.as_unit(unit)
            ctx.probe("timestamp_resolution_" + unit)
        except Exception:
            pass
    ctx.step = 0
    ctx.sim_seconds = max(0, end - start)
    span = (end - start) // DAY
    lc = "0" if span <= 0 else ("s" if span < 7 else ("m" if span < 60 else "l"))
    ctx.sig(zlib.crc32(("%d|%d|%s|%d|%s%s|%s|%s|%s" % (
        cal.day_weekday(start // DAY), cal.day_weekday(end // DAY), lc, start % DAY, plan["pre"], plan["post"],
        plan["wd"].upper(), plan["pm"], plan["fault"])).encode()))
    # ---------------- C12: the clock ----------------
    events = None
    if plan["fault"] == "end_before_start":
        ctx.fault("end_before_start")
        if ctx.judging("C12"):
            try:
                DailyBusinessDaySimulationEngine(S, E, pre_market=plan["pre"], post_market=plan["post"])
                ctx.violate("C12", "end_before_start_accepted", {"start": iso(start), "end": iso(end)})
            except ValueError:
                ctx.ok("C12")
            except Exception as e:
                if not raised_in_repo(e):
                    raise          # a bug of the harness: exit 2, never a verdict
                ctx.violate("C12", "end_before_start_wrong_error", {"exc": repr(e)[:200]})
        ctx.event("clock", "end_before_start")
        return
    try:
        eng = DailyBusinessDaySimulationEngine(S, E, pre_market=plan["pre"], post_market=plan["post"])
        events = [(ev.ts, ev.event_type) for ev in eng]
    except Exception as e:
        if not raised_in_repo(e):
            raise          # a bug of the harness: exit 2, never a verdict
        ctx.violate("C12", "clock_raised_on_valid_range", {"start": iso(start), "end": iso(end), "exc": repr(e)[:300]})
        ctx.violate("C13", "clock_raised_on_valid_range", {"start": iso(start), "end": iso(end), "exc": repr(e)[:300]})
        return
    # the same engine object iterated again: after an abandoned partial pass, twice at once, and once more in full
    try:
        it = iter(eng)
        k = plan.get("peek", 3)
        for _ in range(k):
            try:
                next(it)
            except StopIteration:
                break
        del it
        pairs = []
        for a_, b_ in zip(eng, eng):
            pairs.append((a_.ts, a_.event_type, b_.ts, b_.event_type))
            if len(pairs) >= 4:
                break
        again = [(ev.ts, ev.event_type) for ev in eng]
    except Exception as e:
        if not raised_in_repo(e):
            raise          # a bug of the harness: exit 2, never a verdict
        ctx.violate("C12", "clock_raised_on_second_iteration", {"exc": repr(e)[:300]})
        return
    # events that were kept (a list of the whole clock) still say what they said when they were handed out
    if ctx.judging("C12"):
        try:
            kept = list(eng)
            kept_view = [(ev.ts, ev.event_type) for ev in kept]
        except Exception as e:
            if not raised_in_repo(e):
                raise          # a bug of the harness: exit 2, never a verdict
            ctx.violate("C12", "clock_raised_on_second_iteration", {"exc": repr(e)[:300]})
            return
        ctx.check("C12", kept_view == events, "events_changed_after_they_were_handed_out",
                  lambda: {"start": iso(start), "end": iso(end), "n": len(events),
                           "kept_first": [(str(t), k_) for t, k_ in kept_view[:3]],
                           "streamed_first": [(str(t), k_) for t, k_ in events[:3]]},
                  sig="events_changed_after_they_were_handed_out")
    # a copy of the clock (copy / deepcopy / pickle round trip - a session shipped to another process) is the same clock
    if ctx.judging("C12"):
        import copy as _copy
        import pickle as _pickle
        how = plan.get("clone", "copy")
        try:
            twin = (_copy.copy(eng) if how == "copy" else
                    (_copy.deepcopy(eng) if how == "deepcopy" else _pickle.loads(_pickle.dumps(eng))))
            twin_events = [(ev.ts, ev.event_type) for ev in twin]
        except Exception as e:
            if not raised_in_repo(e):
                raise          # a bug of the harness: exit 2, never a verdict
            ctx.violate("C12", "clock_copy_raised", {"how": how, "exc": repr(e)[:300]})
            return
        ctx.check("C12", twin_events == events, "copied_clock_differs_from_the_original",
                  lambda: {"how": how, "pre": plan["pre"], "post": plan["post"], "n_original": len(events),
                           "n_copy": len(twin_events), "first_of_copy": [(str(t), k_) for t, k_ in twin_events[:2]]},
                  sig="copied_clock_differs_from_the_original")
    il = plan.get("interleave")
    if il and ctx.judging("C12"):
        try:
            sh = il["shift_days"]
            import pandas as pd
            if end // DAY + sh + 3 > cal.epoch_day(9999, 12, 31):
                sh = -sh - 10                      # stay inside the date range
            other = DailyBusinessDaySimulationEngine(S + pd.Timedelta(days=sh), E + pd.Timedelta(days=sh + 3),
                                                     pre_market=il["pre2"], post_market=il["post2"])
            alone = [events, events, [(ev.ts, ev.event_type) for ev in other]]
            its = [iter(eng), iter(eng), iter(other)][:il["n"]]
            seen = [[] for _ in its]
            for k_ in il["schedule"]:
                try:
                    ev = next(its[k_])
                    seen[k_].append((ev.ts, ev.event_type))
                except StopIteration:
                    seen[k_].append(None)
            ctx.fault("clock_iterators_interleaved")
            for k_, got_k in enumerate(seen):
                exp_k = (alone[k_] + [None] * len(got_k))[:len(got_k)]
                ctx.check("C12", got_k == exp_k, "interleaved_clock_iterators_interfere",
                          lambda: {"iterator": k_, "schedule": il["schedule"], "start": iso(start), "end": iso(end),
                                   "got": [None if x is None else (str(x[0]), x[1]) for x in got_k[:6]],
                                   "alone": [None if x is None else (str(x[0]), x[1]) for x in exp_k[:6]]},
                          sig="interleaved_clock_iterators_interfere")
        except StopRun:
            raise
        except Exception as e:
            if not raised_in_repo(e):
                raise          # a bug of the harness: exit 2, never a verdict
            ctx.violate("C12", "clock_raised_when_iterators_interleave", {"exc": repr(e)[:300]})
            return
    if ctx.judging("C12"):
        ctx.check("C12", again == events, "second_iteration_of_the_same_clock_differs",
                  lambda: {"start": iso(start), "end": iso(end), "first_pass": len(events), "later_pass": len(again),
                           "later_first": [(str(t), k_) for t, k_ in again[:2]]},
                  sig="second_iteration_of_the_same_clock_differs")
        ctx.check("C12", all(p_[0] == p_[2] and p_[1] == p_[3] for p_ in pairs) and
                  [(p_[0], p_[1]) for p_ in pairs] == events[:len(pairs)], "simultaneous_iterations_of_one_clock_interfere",
                  lambda: {"pairs": [(str(a), b, str(c), d) for a, b, c, d in pairs[:3]]},
                  sig="simultaneous_iterations_of_one_clock_interfere")
    want = cal.engine_events(start, end, pre=plan["pre"], post=plan["post"])
    got = [(epoch(t), typ) for t, typ in events]
    ctx.event("clock", start, end, plan["pre"], plan["post"], len(got))
    if not want:
        ctx.probe("range_without_business_day")
    if ctx.judging("C12"):
        if got != want:
            sw_, sg_ = set(want), set(got)
            extra = [x for x in got if x not in sw_][:3]
            missing = [x for x in want if x not in sg_][:3]
            orc = "clock_events_differ_from_calendar"
            if sorted(got) == sorted(want):
                orc = "clock_event_order"
            ctx.violate("C12", orc, {"start": iso(start), "end": iso(end), "pre": plan["pre"], "post": plan["post"],
                                     "n_got": len(got), "n_want": len(want),
                                     "extra": [(iso(t), k) for t, k in extra],
                                     "missing": [(iso(t), k) for t, k in missing]}, sig=orc)
        else:
            ctx.ok("C12")
        inc = all(events[i][0] < events[i + 1][0] for i in range(len(events) - 1))
        ctx.check("C12", inc, "clock_not_strictly_increasing", lambda: {"start": iso(start), "end": iso(end)})
        utc = all(str(t.tz) == "UTC" and t.nanosecond == 0 and t.microsecond == 0 for t, _ in events)
        ctx.check("C12", utc, "clock_event_not_utc_second_resolution", lambda: {"start": iso(start)})
    # ---------------- C13: schedules ----------------
    if not ctx.judging("C13"):
        return
    pm = plan["pm"]
    if plan.get("pm_type") == "numpy":
        import numpy as _np
        pm = _np.bool_(pm)               # a truthy flag that is not the object True
    elif plan.get("pm_type") == "int":
        pm = 1 if pm else 0
    if plan["fault"] == "bad_weekday":
        ctx.fault("bad_weekday")
        try:
            WeeklyRebalance(S, E, plan["wd"], pre_market=pm)
            ctx.violate("C13", "unknown_weekday_accepted", {"weekday": plan["wd"]})
        except ValueError:
            ctx.ok("C13")
        except Exception as e:
            if not raised_in_repo(e):
                raise          # a bug of the harness: exit 2, never a verdict
            ctx.violate("C13", "unknown_weekday_wrong_error", {"weekday": plan["wd"], "exc": repr(e)[:200]})
        return
    if plan["wd"] != plan["wd"].upper():
        ctx.probe("lower_case_weekday_accepted")
    event_times = set(t for t, _ in want)
    real_event_times = set(t for t, _ in got)
    for kind, build in (
            ("weekly", lambda: WeeklyRebalance(S, E, plan["wd"], pre_market=pm)),
            ("daily", lambda: DailyRebalance(S, E, pre_market=pm)),
            ("end_of_month", lambda: EndOfMonthRebalance(S, E, pre_market=pm))):
        try:
            raw = list(build().rebalances)
            reb = [epoch(t) for t in raw]
            tz_ok = all(str(t.tz) == "UTC" for t in raw)
            sharp = all(t.nanosecond == 0 and t.microsecond == 0 for t in raw)
        except Exception as e:
            if not raised_in_repo(e):
                raise          # a bug of the harness: exit 2, never a verdict
            ctx.violate("C13", "schedule_raised_on_valid_range",
                        {"kind": kind, "start": iso(start), "end": iso(end), "exc": repr(e)[:300]},
                        sig="schedule_raised_on_valid_range:" + kind)
            return
        ref = cal.schedule(kind, start, end, wd=plan["wd"], pre_market=pm)
        ctx.event("sched", kind, len(reb))
        if reb != ref:
            sref_, sreb_ = set(ref), set(reb)
            extra = [iso(x) for x in reb if x not in sref_][:3]
            missing = [iso(x) for x in ref if x not in sreb_][:3]
            ctx.violate("C13", "schedule_differs_from_calendar",
                        {"kind": kind, "weekday": plan["wd"], "pre_market": pm, "start": iso(start), "end": iso(end),
                         "extra": extra, "missing": missing, "n_got": len(reb), "n_want": len(ref)},
                        sig="schedule_differs_from_calendar:" + kind)
            return
        ctx.ok("C13")
        ctx.check("C13", tz_ok, "schedule_not_utc", lambda: {"kind": kind})
        if not ctx.check("C13", sharp, "schedule_instant_not_stamped_on_the_second",
                         lambda: {"kind": kind, "instants": [str(t) for t in raw[:3]], "start": str(S)},
                         sig="schedule_instant_not_stamped_on_the_second:" + kind):
            return
        # the membership test the session itself performs: Timestamp equality with a clock event
        real_ts = set(t for t, _ in events)
        lost_ts = [str(t) for t in raw if t not in real_ts]
        if not ctx.check("C13", not lost_ts, "scheduled_instant_is_not_a_clock_event",
                         lambda: {"kind": kind, "instants": lost_ts[:5], "start": str(S), "end": iso(end)},
                         sig="scheduled_instant_is_not_a_clock_event:" + kind):
            return
        ctx.check("C13", all(reb[i] < reb[i + 1] for i in range(len(reb) - 1)), "schedule_not_strictly_increasing",
                  lambda: {"kind": kind})
        # every instant coincides with an event the real clock emits for the same range
        lost = [iso(x) for x in reb if x not in real_event_times]
        ctx.check("C13", not lost, "scheduled_instant_is_not_a_clock_event",
                  lambda: {"kind": kind, "instants": lost[:5], "start": iso(start), "end": iso(end)},
                  sig="scheduled_instant_is_not_a_clock_event:" + kind)
        if kind == "end_of_month" and ref:
            import calendar as _c
            for x in ref:
                y, m_, d_ = cal.ymd(x // DAY)
                if d_ != _c.monthrange(y, m_)[1]:
                    ctx.probe("month_end_on_weekend_rolled_back")
    try:
        bh = BuyAndHoldRebalance(S).rebalances
        got_bh = [epoch(t) for t in bh]
    except Exception as e:
        if not raised_in_repo(e):
            raise          # a bug of the harness: exit 2, never a verdict
        ctx.violate("C13", "buy_and_hold_raised", {"start": iso(start), "exc": repr(e)[:200]})
        return
    ref_bh = cal.schedule("buy_and_hold", start, None)
    ctx.check("C13", got_bh == ref_bh, "buy_and_hold_instant_wrong",
              lambda: {"start": iso(start), "weekday": cal.day_weekday(start // DAY),
                       "got": [iso(x) for x in got_bh], "want": [iso(x) for x in ref_bh]},
              sig="buy_and_hold_instant_wrong")
    if not cal.is_bday(start // DAY):
        ctx.probe("buy_and_hold_rolled_to_next_business_day")


SHRINK_LISTS = ("before",)


def simplifications(plan):
    import copy
    # shorter ranges, canonical times
    start, end = plan["start"], plan["end"]
    if plan["fault"] is None:
        span = (end - start) // DAY
        for new_span in (0, 1, 7, 31, span // 2):
            if 0 <= new_span < span:
                p = copy.deepcopy(plan)
                p["end"] = start + new_span * DAY + (end - start) % DAY
                yield p
        if span > 1:
            p = copy.deepcopy(plan)
            p["start"] = start + (span // 2) * DAY
            yield p
    il = plan.get("interleave")
    if il:
        p = copy.deepcopy(plan)
        p["interleave"] = None
        yield p
        if len(il["schedule"]) > 2:
            for part in (il["schedule"][:len(il["schedule"]) // 2], il["schedule"][1:]):
                p = copy.deepcopy(plan)
                p["interleave"]["schedule"] = part
                yield p
    for key in ("pre", "post", "pm"):
        if plan[key]:
            p = copy.deepcopy(plan)
            p[key] = False
            yield p
    if start % DAY != 0:
        p = copy.deepcopy(plan)
        p["start"] = start - start % DAY
        p["start_us"] = 0
        yield p
    if plan.get("start_us"):
        p = copy.deepcopy(plan)
        p["start_us"] = 0
        yield p

"""REBAL world: successive rebalances on one real broker through the real PortfolioConstructionModel,
both order sizers, both optimisers, ExecutionHandler + MarketOrderExecutionAlgorithm, the broker
stack, the exchange and the universe classes -- driven by my scheduler (price move -> rebalance at a
closed or open instant -> tick to the next open), with a scripted alpha model.

Serves C09 (orders = target - holdings, holdings reach the target, liquidations, allocation record),
the C10/C11 sizer monitors and the C19 optimiser monitor.
Stubs: QuoteBook data handler, scripted alpha model, scripted universe (some runs).
"""
import math
import zlib
from fractions import Fraction

from ..core import Ctx, StopRun, close, fhex, frac, ts, epoch, iso, is_open_ref, DAY, OPEN_S, CLOSE_S
from ..quotebook import QuoteBook
from .. import timegen
from .. import refbacktest as rb
from . import session as sw

NAME = "rebal"
ISOLATE = "fork"
PROPS = ("C09", "C10", "C11", "C19")
CHUNK = {"quick": 25, "thorough": 25}
RULE = ("(sizer kind, optimiser kind, universe kind, rebalance instant open/closed, relation of the alpha's asset set "
        "to the holdings: subset / superset / disjoint / equal, holdings sign pattern, faults active in the step)")

PID = "p"
SYMS = ["EQ:AA", "EQ:AB", "EQ:B", "EQ:CCC", "EQ:D1", "EQ:ZZ"]
FAULTS = ("held_not_in_universe", "alpha_silent_on_held", "alpha_outside_universe", "short_holding",
          "nan_price_for_universe_asset", "rebalance_at_open", "price_move_before_fill", "all_zero_weights")


def _quote(rng, base=None, low=False):
    if base is None:
        base = rng.choice([rng.uniform(0.5, 3.0), rng.uniform(0.05, 0.5)]) if low else \
            math.exp(rng.uniform(math.log(1.0), math.log(5000.0)))
    else:
        base = max(0.05, base * math.exp(rng.gauss(0.0, 0.05)))
    r = rng.random()
    if r < 0.25 and base >= 0.75:
        base = float(max(1, round(base)))       # round prices hit floor boundaries
    else:
        base = round(base, 4)
    spread = round(base * rng.choice([0.0001, 0.001, 0.01]) + 0.0001, 4)
    return [base, round(base + spread, 4)]


def generate(rng, focus, tier="quick"):
    f = sorted(focus)[0]
    n_assets = rng.randrange(2, 7)
    assets = SYMS[:n_assets]
    long_only = rng.random() < 0.5
    if f == "C10":
        long_only = True
    if f == "C11":
        long_only = False
    fee = {"kind": "zero"} if rng.random() < 0.35 else {"kind": "pct", "c": rng.choice([0.0, 1e-4, 1e-3, 0.01, 0.05]),
                                                      "t": rng.choice([0.0, 0.0, 5e-3])}
    if rng.random() < 0.15:
        fee = rng.choice([{"kind": "subzero", "c": rng.choice([1e-3, 0.01, 0.05])},
                          {"kind": "subpct", "c": rng.choice([0.0, 1e-3]), "t": 0.5, "t2": rng.choice([0.0, 5e-3, 0.02])}])
    uk = rng.choice(["static", "static", "dynamic", "scripted"])
    start = timegen.start_instant(rng)
    cfg = {
        "assets": assets, "long_only": long_only,
        "cash_buffer": rng.choice([0.0, 0, 0.01, 0.05, 0.1, 0.5, 1.0, 1]),
        "leverage": rng.choice([0.5, 1.0, 1, 1.5, 2.0, 2, 5.0]),
        "optimiser": ("equal" if rng.random() < (0.5 if f == "C19" else 0.25) else "fixed"),
        "scale": rng.choice([1.0, 1.0, 0.5, 2.0, 0.3, 1, 2, 3]),       # Python ints too
        "opt_call": rng.choice(["kw", "kw", "pos", "pos_scale_only", "np64"]),
        "uni_ret": rng.choice(["list", "list", "tuple", "gen", "gen"]),
        "fee": fee, "initial_cash": rng.choice([1e3, 1e4, 1e5, 1e6, 1e7, 54321.98]),
        "start": start, "universe_kind": uk,
        "quotes0": dict((a, _quote(rng, low=rng.random() < 0.25)) for a in assets),
        "np_quotes": rng.random() < 0.5,
        "np_str": rng.random() < 0.15,
        "fresh_nan": rng.random() < 0.5,     # "no quote" as a fresh NaN object rather than the np.nan singleton
    }
    n_reb = rng.randrange(2, 9)
    enabled = set(k for k in FAULTS if rng.random() < 0.6)
    # a second portfolio on the same broker, rebalanced by its own construction model at the same instants
    cfg["neighbour"] = rng.random() < 0.35
    cfg["cash2"] = rng.choice([1e4, 4e5, 1e6])
    # the neighbour's sizer has settings of its own: another buffer, another leverage
    cfg["cash_buffer2"] = rng.choice([0.0, 0.02, 0.2, 0.6])
    cfg["leverage2"] = rng.choice([0.25, 1.0, 3.0, 4.0])
    if uk == "static":
        k = rng.randrange(1, n_assets + 1)
        cfg["universe"] = sorted(rng.sample(assets, k))
    elif uk == "dynamic":
        cfg["entries"] = {}
        for a in assets:
            r = rng.random()
            if r < 0.08:
                cfg["entries"][a] = -rng.choice([1, 365, 2922, 20000]) * DAY     # listed before 1970
                continue
            cfg["entries"][a] = (start - DAY) if r < 0.5 else ((start + rng.randrange(0, 20) * DAY + rng.choice([0, CLOSE_S, 17 * 3600])) if r < 0.9 else None)
        if rng.random() < 0.4:
            cfg["entry_tz"] = dict((a, rng.choice(["US/Eastern", "Asia/Tokyo", "UTC"])) for a in assets)
        cfg["absent_as_nat"] = rng.random() < 0.4
        cfg["py_datetime"] = rng.random() < 0.3
    ops = []
    now = start
    prev_w = None
    last = dict((a, cfg["quotes0"][a][0]) for a in assets)
    if "short_holding" in enabled or rng.random() < 0.3:
        # pre-existing positions (possibly short, possibly outside the universe) opened by raw orders
        for a in rng.sample(assets, rng.randrange(1, n_assets + 1)):
            q = rng.randrange(1, 500) * (-1 if ("short_holding" in enabled and rng.random() < 0.5) else 1)
            ops.append({"k": "order", "asset": a, "qty": q})
        now = timegen.next_inhours(rng, now)
        ops.append({"k": "tick", "t": now})
    for i in range(n_reb):
        for a in assets:
            if rng.random() < 0.6:
                b, k_ = _quote(rng, last[a])
                last[a] = b
                ops.append({"k": "quote", "asset": a, "bid": b, "ask": k_})
        at_open = "rebalance_at_open" in enabled and rng.random() < 0.3
        if at_open:
            now = timegen.next_inhours(rng, now + 1)
        else:
            now = timegen.next_tod(now + 1, CLOSE_S, strict=False)
            if rng.random() < 0.3:
                kind, now = timegen.next_instant(rng, now, rng.choice(["sat", "overnight", "close_p1", "open_m1"]))
        # scripted alpha
        r = rng.random()
        pool = list(assets)
        if r < 0.25:
            keys = rng.sample(pool, rng.randrange(1, len(pool) + 1))
        elif r < 0.5:
            keys = pool[: rng.randrange(1, len(pool) + 1)]
        elif r < 0.75:
            keys = pool[rng.randrange(0, len(pool)):] or pool[:1]
        else:
            keys = [rng.choice(pool)]
        w = {}
        for a in keys:
            v = rng.choice([0.0, 0.1, 0.25, 0.5, 1.0, 1.0, 2.0, 3.3, round(rng.uniform(0.01, 2.0), 4)])
            if not long_only and rng.random() < 0.4:
                v = -v
            w[a] = v
        if rng.random() < 0.12:
            # integer-typed weights (plain Python ints, as a +1/-1 signal would produce)
            w = dict((a, rng.choice([1, 1, 2, 3]) * (-1 if (not long_only and rng.random() < 0.4) else 1)) for a in keys)
        if rng.random() < 0.15:
            # weight vectors that are *almost* normalised: thirds rounded to six decimals, 1 +/- a few 1e-6 ...
            n = len(keys)
            base = round(1.0 / n, 6)
            w = dict((a, base) for a in keys)
            if rng.random() < 0.5:
                w[keys[0]] = round(w[keys[0]] + rng.choice([-9e-6, -2e-6, 1e-6, 2e-6, 6e-6, 2e-5]), 6)
            if not long_only and rng.random() < 0.3:
                w[keys[-1]] = -w[keys[-1]]
        if len(keys) > 1 and rng.random() < 0.05:
            # one weight that is negligible next to the others, down to the subnormal range: still a legal weight
            w[keys[-1]] = rng.choice([1e-300, 0.5 ** 1021, 5e-324, 1e-18]) * (-1 if (not long_only and rng.random() < 0.3) else 1)
        if "all_zero_weights" in enabled and rng.random() < 0.1:
            w = dict((a, 0.0) for a in w)
        if long_only and rng.random() < 0.06:
            # a strictly negative weight, possibly of negligible magnitude ("float noise"): still negative
            w[keys[0]] = rng.choice([-1e-12, -1e-17, -1e-20, -5e-324, -5e-9, 0.3 - 0.1 - 0.2, -1e-7, -0.001, -0.25])
            if len(keys) == 1:
                w[rng.choice([a for a in assets if a != keys[0]] or keys)] = 0.5
        if uk == "dynamic" and rng.random() < 0.15:
            # offsets are relative to the moment of the amendment (a few minutes to a few weeks later), or "unlisted"
            ops.append({"k": "amend_entry", "asset": rng.choice(assets),
                        "entry": rng.choice([60, 3600, DAY, 3 * DAY, 10 * DAY, 30 * DAY, None])})
        if prev_w is not None and rng.random() < 0.2:
            w = dict(prev_w)          # the same target weights again: the orders are the small drift since last time
        prev_w = dict(w)
        if rng.random() < 0.1:
            ops.append({"k": "retune", "buffer": rng.choice([0.0, 0.05, 0.3, 0.5, 1.0]),
                        "leverage": rng.choice([0.5, 1.0, 2.0, 3.0])})
        step = {"k": "rebalance", "t": now, "weights": w}
        if rng.random() < 0.2:
            step["no_stats"] = True          # pcm(dt): the optional stats argument left out
        if cfg["neighbour"]:
            ks2 = rng.sample(assets, rng.randrange(1, len(assets) + 1))
            step["weights2"] = dict((a, rng.choice([0.25, 0.5, 0.75, 1.0]) * (-1 if (not long_only and rng.random() < 0.3) else 1))
                                    for a in ks2)
        if uk == "scripted":
            step["universe"] = sorted(rng.sample(assets, rng.randrange(0, n_assets + 1)))
        if "nan_price_for_universe_asset" in enabled and rng.random() < 0.1:
            step["nan"] = rng.choice(assets)
        ops.append(step)
        if not at_open:
            if "price_move_before_fill" in enabled and rng.random() < 0.5:
                a = rng.choice(assets)
                b, k_ = _quote(rng, last[a])
                last[a] = b
                ops.append({"k": "quote", "asset": a, "bid": b, "ask": k_})
            if rng.random() < 0.3:
                kind, t2 = timegen.next_instant(rng, now, rng.choice(["overnight", "sat", "dup", "open_m1"]))
                now = t2
                ops.append({"k": "tick", "t": now})
            if rng.random() < 0.92:
                now = timegen.next_inhours(rng, now)
                ops.append({"k": "tick", "t": now})
    return {"world": NAME, "cfg": cfg, "ops": ops}


# ---------------------------------------------------------------------------

class _Alpha(object):
    def __init__(self):
        self.w = {}

    def __call__(self, dt):
        return dict(self.w)


class _Universe(object):
    """harness stub: a scripted universe; what it hands back may be a list, a tuple or a one-shot iterator"""

    def __init__(self, ret="list"):
        self.assets = []
        self.ret = ret

    def get_assets(self, dt):
        if self.ret == "tuple":
            return tuple(self.assets)
        if self.ret == "gen":
            return (a for a in list(self.assets))
        return list(self.assets)


def execute(plan, focus, trace=False):
    from ..core import apply_host_state
    apply_host_state(plan)
    ctx = Ctx(focus, trace=trace)
    try:
        _run(plan, ctx)
    except StopRun:
        pass
    return ctx


def _run(plan, ctx):
    from qstrader.broker.simulated_broker import SimulatedBroker
    from qstrader.exchange.simulated_exchange import SimulatedExchange
    from qstrader.broker.fee_model.zero_fee_model import ZeroFeeModel
    from qstrader.broker.fee_model.percent_fee_model import PercentFeeModel
    from qstrader.portcon.pcm import PortfolioConstructionModel
    from qstrader.portcon.order_sizer.dollar_weighted import DollarWeightedCashBufferedOrderSizer
    from qstrader.portcon.order_sizer.long_short import LongShortLeveragedOrderSizer
    from qstrader.portcon.optimiser.fixed_weight import FixedWeightPortfolioOptimiser
    from qstrader.portcon.optimiser.equal_weight import EqualWeightPortfolioOptimiser
    from qstrader.execution.execution_handler import ExecutionHandler
    from qstrader.execution.execution_algo.market_order import MarketOrderExecutionAlgorithm
    from qstrader.execution.order import Order
    from qstrader.asset.universe.static import StaticUniverse
    from qstrader.asset.universe.dynamic import DynamicUniverse
    from .. import sessionlib as sl
    cfg = plan["cfg"]
    if cfg.get("np_str"):
        # symbols that are a str subclass (numpy.str_, as np.char.add('EQ:', tickers) would give)
        import copy as _copy
        import numpy as _np
        plan = _copy.deepcopy(plan)
        cfg = plan["cfg"]
        S_ = lambda a: _np.str_(a)
        cfg["assets"] = [S_(a) for a in cfg["assets"]]
        if "universe" in cfg:
            cfg["universe"] = [S_(a) for a in cfg["universe"]]
        if "entries" in cfg:
            cfg["entries"] = dict((S_(a), e) for a, e in cfg["entries"].items())
        cfg["quotes0"] = dict((S_(a), q) for a, q in cfg["quotes0"].items())
        for op in plan["ops"]:
            if "asset" in op:
                op["asset"] = S_(op["asset"])
            if "nan" in op:
                op["nan"] = S_(op["nan"])
            for key in ("weights", "weights2"):
                if key in op:
                    op[key] = dict((S_(a), v) for a, v in op[key].items())
            if "universe" in op:
                op["universe"] = [S_(a) for a in op["universe"]]
        ctx.probe("numpy_string_symbols")
    qb = QuoteBook(numpy_floats=cfg.get("np_quotes", False))
    qb.fresh_nan = bool(cfg.get("fresh_nan"))
    for a, (b, k) in sorted(cfg["quotes0"].items()):
        qb.set(a, b, k)
    fee = cfg["fee"]
    if fee["kind"] in ("subzero", "subpct"):
        from .broker import make_sub_fee
        fm = make_sub_fee(fee)
    else:
        fm = ZeroFeeModel() if fee["kind"] == "zero" else PercentFeeModel(commission_pct=fee["c"], tax_pct=fee["t"])
    t0 = ts(cfg["start"])
    ex = SimulatedExchange(t0)
    if cfg.get("opt_call") == "pos":
        broker = SimulatedBroker(t0, ex, qb, "rebal", "USD", cfg["initial_cash"], fm)
    else:
        broker = SimulatedBroker(t0, ex, qb, account_id="rebal", initial_funds=cfg["initial_cash"], fee_model=fm)
    broker.create_portfolio(PID, "rebal")
    broker.subscribe_funds_to_portfolio(PID, cfg["initial_cash"])
    uk = cfg["universe_kind"]
    scripted = None
    if uk == "static":
        uni = StaticUniverse(list(cfg["universe"]))
    elif uk == "dynamic":
        tzs = cfg.get("entry_tz") or {}
        import pandas as _pd
        absent = _pd.NaT if cfg.get("absent_as_nat") else None
        def _entry(a, e):
            if e is None:
                return absent
            t_ = ts(e).tz_convert(tzs[a]) if tzs.get(a) else ts(e)
            return t_.to_pydatetime() if (cfg.get("py_datetime") and e > -2000000000) else t_
        uni = DynamicUniverse(dict((a, _entry(a, e)) for a, e in cfg["entries"].items()))
    else:
        uni = scripted = _Universe(cfg.get("uni_ret", "list"))
    alpha = _Alpha()
    if cfg["long_only"]:
        sizer = DollarWeightedCashBufferedOrderSizer(broker, PID, qb, cash_buffer_percentage=cfg["cash_buffer"])
    else:
        sizer = LongShortLeveragedOrderSizer(broker, PID, qb, gross_leverage=cfg["leverage"])
    if cfg["optimiser"] == "equal":
        oc_ = cfg.get("opt_call", "kw")
        if oc_ == "pos":
            opt = EqualWeightPortfolioOptimiser(cfg["scale"], qb)          # (scale, data_handler) as documented
        elif oc_ == "pos_scale_only":
            opt = EqualWeightPortfolioOptimiser(cfg["scale"])
        elif oc_ == "np64":
            opt = EqualWeightPortfolioOptimiser(scale=__import__("numpy").float64(cfg["scale"]), data_handler=qb)
        else:
            opt = EqualWeightPortfolioOptimiser(scale=cfg["scale"], data_handler=qb)
    else:
        opt = (FixedWeightPortfolioOptimiser(qb) if cfg.get("opt_call") == "pos"
               else FixedWeightPortfolioOptimiser(data_handler=qb))
    pcm = PortfolioConstructionModel(broker, PID, uni, sizer, opt, alpha_model=alpha, data_handler=qb)
    handler = ExecutionHandler(broker, PID, uni, submit_orders=True, execution_algo=MarketOrderExecutionAlgorithm(),
                               data_handler=qb)
    # ---- optional neighbour portfolio (same broker, own construction model and execution handler) ----
    nb = None
    if cfg.get("neighbour"):
        nb = {"pid": "q", "alpha": _Alpha(), "txns": [], "target": None, "awaiting": None}
        broker.subscribe_funds_to_account(cfg["cash2"])
        broker.create_portfolio("q", "neighbour")
        broker.subscribe_funds_to_portfolio("q", cfg["cash2"])
        if cfg["long_only"]:
            sz2 = DollarWeightedCashBufferedOrderSizer(broker, "q", qb,
                                                       cash_buffer_percentage=cfg.get("cash_buffer2", cfg["cash_buffer"]))
        else:
            sz2 = LongShortLeveragedOrderSizer(broker, "q", qb, gross_leverage=cfg.get("leverage2", cfg["leverage"]))
        nb["sizer"] = sz2
        nb["pcm"] = PortfolioConstructionModel(broker, "q", uni, sz2, FixedWeightPortfolioOptimiser(data_handler=qb),
                                               alpha_model=nb["alpha"], data_handler=qb)
        nb["handler"] = ExecutionHandler(broker, "q", uni, submit_orders=True,
                                         execution_algo=MarketOrderExecutionAlgorithm(), data_handler=qb)
        pf2 = broker.portfolios["q"]
        inner2 = pf2.transact_asset

        def transact2(txn):
            nb["txns"].append({"asset": txn.asset, "qty": txn.quantity})
            return inner2(txn)
        pf2.transact_asset = transact2

        def sizer2_call(inner, dt, weights):
            out = inner(dt, weights)
            nb["target"] = dict((a, v["quantity"]) for a, v in out.items())
            return out
        nb["pcm"].order_sizer = sl._CallProxy(sz2, sizer2_call)

    def nb_held():
        h = {}
        for x in nb["txns"]:
            h[x["asset"]] = h.get(x["asset"], 0) + x["qty"]
        return dict((a, q) for a, q in h.items() if q != 0)

    def nb_check(label, t_):
        if nb["awaiting"] is None:
            return
        want = dict((a, q) for a, q in nb["awaiting"].items() if q != 0)
        nb["awaiting"] = None
        if ctx.judging("C09"):
            got = nb_held()
            ctx.check("C09", got == want, "neighbour_portfolio_holdings_after_fills_differ_from_its_target",
                      lambda: {"when": label, "t": iso(t_), "holdings": got, "target": want},
                      sig="neighbour_portfolio_holdings_after_fills_differ_from_its_target")

    # ---- monitors (instance wrapping) ----
    txns = []
    pf = broker.portfolios[PID]
    inner_txn = pf.transact_asset

    def transact_asset(txn):
        txns.append({"t": epoch(txn.dt), "asset": txn.asset, "qty": txn.quantity, "step": ctx.step})
        return inner_txn(txn)
    pf.transact_asset = transact_asset
    sizer_calls = []
    opt_calls = []

    def sizer_call(inner, dt, weights):
        e = {"t": epoch(dt), "weights": dict(weights), "result": None, "exc": None}
        try:
            e["equity"] = float(broker.get_portfolio_total_equity(PID))
            e["prices"] = dict((a, float(qb.get_asset_latest_ask_price(dt, a))) for a in weights)
        except Exception as x:
            e["seam_exc"] = repr(x)[:200]
        sizer_calls.append(e)
        try:
            out = inner(dt, weights)
        except Exception as x:
            e["exc"] = type(x).__name__
            raise
        e["result"] = dict((a, v["quantity"]) for a, v in out.items())
        return out
    pcm.order_sizer = sl._CallProxy(sizer, sizer_call)

    def opt_call(inner, dt, initial_weights=None, **kw):
        out = inner(dt, initial_weights=initial_weights, **kw)
        opt_calls.append({"t": epoch(dt), "in": dict(initial_weights), "out": dict(out)})
        return out
    pcm.optimiser = sl._CallProxy(opt, opt_call)

    def held_now():
        h = {}
        for x in txns:
            h[x["asset"]] = h.get(x["asset"], 0) + x["qty"]
        return dict((a, q) for a, q in h.items() if q != 0)

    def universe_ref(t, step):
        if uk == "static":
            return list(cfg["universe"])
        if uk == "dynamic":
            return [a for a, e in cfg["entries"].items() if e is not None and e <= t]
        return list(step.get("universe", []))

    def pending():
        q = broker.open_orders[PID]
        inner = getattr(q, "queue", None)
        return [(o.asset, o.quantity) for o in (list(inner) if inner is not None else list(q))]

    stats = {"target_allocations": []}
    now = cfg["start"]
    awaiting = None      # (step index, target) of a closed-hours rebalance whose orders have not filled yet
    fake = type("O", (), {})()
    fake.rec = type("R", (), {})()
    for i, op in enumerate(plan["ops"]):
        ctx.step = i
        k = op["k"]
        if k == "quote":
            qb.set(op["asset"], op["bid"], op["ask"])
            ctx.event("quote", op["asset"], float(op["bid"]), float(op["ask"]))
            if awaiting is not None:
                ctx.fault("price_move_before_fill")
            continue
        if k == "order":
            broker.submit_order(PID, Order(ts(now), op["asset"], op["qty"]))
            ctx.event("order", op["asset"], op["qty"])
            continue
        if k == "amend_entry":
            # the user corrects a listing date in place, on the mapping the universe was built from
            if uk == "dynamic":
                a_ = op["asset"]
                e_old = cfg["entries"].get(a_, None)
                if a_ in cfg["entries"] and (e_old is None or e_old > now):
                    e_new = None if op["entry"] is None else max(now + 1, now + int(op["entry"]))
                    cfg = dict(cfg)
                    cfg["entries"] = dict(cfg["entries"])
                    cfg["entries"][a_] = e_new
                    key_ = [x for x in uni.asset_dates if x == a_][0]
                    uni.asset_dates[key_] = _entry(a_, e_new)
                    ctx.event("amend_entry", a_, e_new)
                    ctx.probe("entry_date_amended_in_place")
            continue
        if k == "retune":
            # the user re-configures the sizer between two rebalances by assigning its public attribute
            cfg = dict(cfg)
            if cfg["long_only"]:
                sizer.cash_buffer_percentage = op["buffer"]
                cfg["cash_buffer"] = op["buffer"]
            else:
                sizer.gross_leverage = op["leverage"]
                cfg["leverage"] = op["leverage"]
            ctx.event("retune", op["buffer"], op["leverage"])
            ctx.probe("sizer_reconfigured_between_rebalances")
            continue
        if k == "tick":
            t = max(now, op["t"])
            n0 = len(txns)
            try:
                broker.update(ts(t))
            except Exception as e:
                ctx.probe("tick_raised:" + type(e).__name__)
                raise StopRun()
            now = t
            ctx.event("tick", t, len(txns) - n0)
            if nb is not None and is_open_ref(t):
                nb_check("tick", t)
            if awaiting is not None and is_open_ref(t):
                j, target = awaiting
                awaiting = None
                if ctx.judging("C09"):
                    after = held_now()
                    want = dict((a, q) for a, q in target.items() if q != 0)
                    ctx.check("C09", after == want, "holdings_after_fills_differ_from_target",
                              lambda: {"rebalance_step": j, "fill_tick": iso(t), "holdings": after, "target": want},
                              sig="holdings_after_fills_differ_from_target")
            continue
        # ---- rebalance ----
        t = max(now, op["t"])
        if awaiting is not None:
            ctx.probe("rebalance_before_previous_orders_filled")
            awaiting = None
        alpha.w = dict(op["weights"])
        if scripted is not None:
            scripted.assets = list(op.get("universe", []))
        try:
            broker.update(ts(t))
        except Exception as e:
            ctx.probe("tick_raised:" + type(e).__name__)
            raise StopRun()
        now = t
        if "nan" in op:
            qb.drop(op["nan"])      # the quote disappears between the mark and the sizing
        held = held_now()
        uni_ref = universe_ref(t, op)
        weights = dict(op["weights"])
        open_now = is_open_ref(t)
        if open_now:
            ctx.fault("rebalance_at_open")
        hs, ws = set(held), set(weights)
        rel = "equal" if hs == ws else ("subset" if ws < hs else ("superset" if ws > hs else (
            "disjoint" if not (ws & hs) else "overlap")))
        signs = "".join("+" if q > 0 else "-" for a, q in sorted(held.items()))
        ctx.sig(zlib.crc32(("%s|%s|%s|%s|%s|%s|%s" % (cfg["long_only"], cfg["optimiser"], uk, open_now, rel, signs,
                                                      "nan" in op)).encode()))
        if any(a not in uni_ref for a in held):
            ctx.fault("held_not_in_universe")
        if any(a not in weights for a in held):
            ctx.fault("alpha_silent_on_held")
        if any(a not in uni_ref for a in weights):
            ctx.fault("alpha_outside_universe")
        if any(q < 0 for q in held.values()):
            ctx.fault("short_holding")
        if weights and all(v == 0 for v in weights.values()):
            ctx.fault("all_zero_weights")
        n_s, n_o, n_a = len(sizer_calls), len(opt_calls), len(stats["target_allocations"])
        q_before = pending()
        n_tx = len(txns)
        exc = None
        orders = None
        try:
            if op.get("no_stats"):
                orders = pcm(ts(t))
                ctx.probe("construction_model_called_without_stats")
            else:
                orders = pcm(ts(t), stats=stats)
        except Exception as e:
            exc = e
        ctx.event("rebalance", t, sorted(weights.items()), type(exc).__name__ if exc else len(orders))
        wanted_assets = set(uni_ref) | set(held) | set(weights)
        # ---- C19: what the universe object yields, before and after the construction model used it ----
        if ctx.judging("C19") and uk != "scripted":
            got_u = list(uni.get_assets(ts(t)))
            if uk == "static":
                ctx.check("C19", got_u == list(cfg["universe"]), "static_universe_not_its_configured_list",
                          lambda: {"t": iso(t), "yields": got_u, "configured": cfg["universe"], "held": held},
                          sig="static_universe_not_its_configured_list")
            else:
                ctx.check("C19", sorted(got_u) == sorted(uni_ref), "universe_membership_differs_from_entry_dates",
                          lambda: {"t": iso(t), "yields": sorted(got_u), "expected": sorted(uni_ref)},
                          sig="universe_membership_differs_from_entry_dates")
        nan_assets = [a for a in wanted_assets if qb.bid_ask(a)[1] != qb.bid_ask(a)[1]]
        # ---- C19: the optimiser seam ----
        if ctx.judging("C19") and len(opt_calls) > n_o:
            oc = opt_calls[-1]
            if cfg["optimiser"] == "fixed":
                ctx.check("C19", set(oc["out"]) == set(oc["in"]) and
                          all(fhex(oc["out"][a]) == fhex(oc["in"][a]) for a in oc["in"]),
                          "fixed_weight_optimiser_changed_its_input",
                          lambda: {"in": oc["in"], "out": oc["out"]})
            else:
                n = len(oc["in"])
                okk = set(oc["out"]) == set(oc["in"])
                okv = okk and all(close(v, cfg["scale"] / n, scale=abs(cfg["scale"]), rel=1e-12) for v in oc["out"].values())
                oks = okk and close(sum(oc["out"].values()), cfg["scale"], scale=abs(cfg["scale"]), rel=1e-9)
                ctx.check("C19", okk and okv and oks, "equal_weight_optimiser_wrong",
                          lambda: {"in": oc["in"], "out": oc["out"], "scale": cfg["scale"]},
                          sig="equal_weight_optimiser_wrong")
            ctx.check("C19", oc["in"] == weights, "optimiser_not_given_the_alpha_weights",
                      lambda: {"given": oc["in"], "alpha": weights})
        if exc is not None:
            # legitimate refusals: NaN price of a sized asset, negative weight under long-only
            legit = bool(nan_assets) or (cfg["long_only"] and any(v < 0 for v in _opt_ref(cfg, weights).values()))
            if nan_assets:
                ctx.fault("nan_price_for_universe_asset")
            if ctx.judging("C09"):
                ctx.check("C09", legit and isinstance(exc, ValueError), "rebalance_raised",
                          lambda: {"t": iso(t), "exc": repr(exc)[:300], "weights": weights, "held": held},
                          sig="rebalance_raised:" + type(exc).__name__)
                ctx.check("C09", pending() == q_before and len(txns) == n_tx, "orders_submitted_by_a_failed_rebalance",
                          lambda: {"before": q_before, "after": pending()})
            # a refused rebalance: restore the quote so the run can continue
            if "nan" in op:
                qb.set(op["nan"], *cfg["quotes0"][op["nan"]])
            judge_sizers(cfg, sizer_calls[n_s:], ctx)
            continue
        if "nan" in op and not nan_assets:
            qb.set(op["nan"], *cfg["quotes0"][op["nan"]])
        if nan_assets:
            ctx.fault("nan_price_for_universe_asset")
            for P in ("C09", "C10", "C11"):
                if ctx.judging(P) and ((P == "C10") == cfg["long_only"] or P == "C09"):
                    ctx.violate(P, "unavailable_price_not_rejected",
                                {"t": iso(t), "assets": nan_assets, "orders": [(o.asset, o.quantity) for o in orders]},
                                sig="unavailable_price_not_rejected")
            raise StopRun()
        target = dict(sizer_calls[-1]["result"]) if len(sizer_calls) > n_s and sizer_calls[-1]["result"] is not None else None
        if target is None and len(sizer_calls) == n_s:
            # the construction model did not consult the sizer: the configured sizer's own target for the full
            # weight vector is still what the orders must reach (nothing has been submitted yet)
            ctx.probe("construction_model_bypassed_the_sizer")
            full = dict((a, 0.0) for a in sorted(wanted_assets))
            full.update(_opt_ref(cfg, weights))
            try:
                out_ = sizer(ts(t), full) if full else {}
                target = dict((a, v["quantity"]) for a, v in out_.items())
            except Exception:
                target = None
        if ctx.judging("C09"):
            if target is None:
                ctx.violate("C09", "rebalance_without_sizing", {"t": iso(t)})
                raise StopRun()
            stray = [a for a, q in target.items() if a not in wanted_assets and q != 0]
            ctx.check("C09", not stray, "target_for_asset_outside_universe_held_weighted",
                      lambda: {"t": iso(t), "assets": stray, "target": target, "universe": sorted(uni_ref), "held": held,
                               "weighted": sorted(weights)}, sig="target_for_asset_outside_universe_held_weighted")
            exp = [(a, target.get(a, 0) - held.get(a, 0)) for a in sorted(set(target) | set(held))
                   if target.get(a, 0) - held.get(a, 0) != 0]
            got = [(o.asset, o.quantity) for o in orders]
            ctx.check("C09", got == exp, "orders_not_target_minus_holdings",
                      lambda: {"t": iso(t), "orders": got, "expected": exp, "held": held, "target": target,
                               "universe": sorted(uni_ref), "weights": weights},
                      sig="orders_not_target_minus_holdings")
            ctx.check("C09", all(epoch(o.created_dt) == t for o in orders), "order_creation_time_not_rebalance_time",
                      lambda: {"t": iso(t)})
            unweighted = [a for a in held if a not in _opt_ref(cfg, weights)]
            if unweighted:
                ctx.probe("held_asset_without_weight")
                ctx.check("C09", all(target.get(a, 0) == 0 for a in unweighted), "held_asset_without_weight_not_liquidated",
                          lambda: {"assets": unweighted, "target": target}, sig="held_asset_without_weight_not_liquidated")
            recs = stats["target_allocations"]
            if op.get("no_stats"):
                ctx.check("C09", len(recs) == n_a, "allocation_recorded_without_stats_argument", lambda: {"n": len(recs) - n_a})
            elif ctx.check("C09", len(recs) == n_a + 1, "allocation_record_count", lambda: {"n": len(recs) - n_a}):
                d = recs[-1]
                ow = _opt_ref(cfg, weights)
                keys = set(kk for kk in d if kk != "Date")
                okd = (epoch(d["Date"]) == t and keys == wanted_assets and
                       all(d[a] == 0.0 for a in wanted_assets if a not in ow) and
                       all(close(d[a], ow[a], scale=abs(ow[a]), rel=1e-12) for a in wanted_assets if a in ow))
                ctx.check("C09", okd, "recorded_target_allocation_wrong",
                          lambda: {"t": iso(t), "recorded": dict((kk, (str(v) if kk == "Date" else float(v))) for kk, v in d.items()),
                                   "expected_assets": sorted(wanted_assets), "weights": ow},
                          sig="recorded_target_allocation_wrong")
        judge_sizers(cfg, sizer_calls[n_s:], ctx)
        # ---- execution ----
        try:
            handler(ts(t), orders)
        except Exception as e:
            from qsim.core import raised_in_repo as _rir
            if not _rir(e):
                raise          # a bug of the harness: exit 2, never a verdict
            ctx.violate("C09", "execution_raised", {"exc": repr(e)[:300]})
            raise StopRun()
        if nb is not None:
            nb["alpha"].w = dict(op.get("weights2", {}))
            had_pending2 = len(getattr(broker.open_orders["q"], "queue", [])) > 0
            nb["target"] = None
            try:
                orders2 = nb["pcm"](ts(t), stats=None)
                nb["handler"](ts(t), orders2)
                if nb["target"] is not None and not had_pending2:
                    nb["awaiting"] = dict(nb["target"])
                    ctx.probe("neighbour_portfolio_rebalanced_at_the_same_instant")
                    if open_now:
                        nb_check("immediate", t)
                else:
                    nb["awaiting"] = None
            except StopRun:
                raise
            except Exception:
                nb["awaiting"] = None
                ctx.probe("neighbour_rebalance_raised")
        if target is not None:
            if open_now:
                if ctx.judging("C09"):
                    after = held_now()
                    want = dict((a, q) for a, q in target.items() if q != 0)
                    ctx.check("C09", after == want, "holdings_after_fills_differ_from_target",
                              lambda: {"rebalance": iso(t), "immediate": True, "holdings": after, "target": want},
                              sig="holdings_after_fills_differ_from_target")
            else:
                # "once those orders fill, holdings equal the target" presumes nothing else was pending
                if q_before:
                    ctx.probe("rebalance_with_earlier_orders_still_pending:post_fill_check_skipped")
                else:
                    awaiting = (i, target)
                if ctx.judging("C09"):
                    ctx.check("C09", len(txns) == n_tx, "fill_at_closed_rebalance_instant", lambda: {"t": iso(t)})
    ctx.sim_seconds = max(0, now - cfg["start"])


def _opt_ref(cfg, weights):
    if cfg["optimiser"] == "equal" and weights:
        return dict((a, cfg["scale"] / len(weights)) for a in weights)
    return dict(weights)


def judge_sizers(cfg, calls, ctx):
    if not calls:
        return
    fake = type("O", (), {})()
    fake.rec = type("R", (), {})()
    fake.rec.sizer = calls
    c2 = {"long_only": cfg["long_only"], "cash_buffer": cfg["cash_buffer"], "leverage": cfg["leverage"],
          "fee": cfg["fee"]}
    if ctx.judging("C10"):
        sw.judge_sizer(c2, fake, ctx, "C10")
    if ctx.judging("C11"):
        sw.judge_sizer(c2, fake, ctx, "C11")


def simplifications(plan):
    import copy
    cfg = plan["cfg"]
    if cfg["fee"]["kind"] != "zero":
        p = copy.deepcopy(plan)
        p["cfg"]["fee"] = {"kind": "zero"}
        yield p
    if cfg["optimiser"] != "fixed":
        p = copy.deepcopy(plan)
        p["cfg"]["optimiser"] = "fixed"
        yield p
    if cfg.get("np_quotes"):
        p = copy.deepcopy(plan)
        p["cfg"]["np_quotes"] = False
        yield p
    for i, op in enumerate(plan["ops"]):
        if op["k"] == "rebalance" and len(op["weights"]) > 1:
            for a in sorted(op["weights"]):
                p = copy.deepcopy(plan)
                del p["ops"][i]["weights"][a]
                yield p

"""BROKER world: real SimulatedBroker / Portfolio / PositionHandler / Position / Transaction /
PortfolioEvent / Order / SimulatedExchange / fee models, driven by my scheduler through a generated
operation-and-fault plan, against the exact-arithmetic Ledger reference model.

Serves C01, C02, C03, C04, C05, C15 (DESIGN section 4).
Stub: QuoteBook data handler (bid != ask).
"""
import math
import zlib
from fractions import Fraction

from ..core import (Ctx, StopRun, close, cents_ok, fhex, frac, ts, epoch, is_open_ref, weekday,
                    DAY, OPEN_S, CLOSE_S, iso)
from ..quotebook import QuoteBook
from .. import timegen

NAME = "broker"
ISOLATE = "fork"
PROPS = ("C01", "C02", "C03", "C04", "C05", "C15")

ASSETS = ["EQ:AAA", "EQ:BBB", "EQ:CCC", "EQ:DDD", "EQ:EEE", "EQ:FFF", "EQ:GGG", "EQ:HHH"]
PIDS_DEFAULT = ["p1", "p2", "p3", "p4", "p5", "p6"]
PIDS = PIDS_DEFAULT

FAULT_KINDS = (
    "neg_amount", "overdraw_account", "overdraw_portfolio", "overfund_portfolio", "exact_balance",
    "unknown_portfolio", "dup_portfolio", "bad_currency", "neg_initial_funds", "bad_fee_model",
    "pf_early_dt", "pf_direct_bad_amount", "neg_mark", "zero_mark", "clock_regress",
    "clock_regress_pending", "closed_tick", "dup_tick", "neg_cash_buy", "flip_through_zero",
    "close_and_reopen", "unpriceable_order",
)

# which refused-request kinds the generator may emit as explicit fault ops
REFUSED_OPS = (
    "neg_amount", "overdraw_account", "overdraw_portfolio", "overfund_portfolio",
    "unknown_portfolio", "dup_portfolio", "bad_currency", "neg_initial_funds", "bad_fee_model",
    "pf_early_dt", "pf_direct_bad_amount", "neg_mark", "zero_mark", "clock_regress",
    "clock_regress_pending", "unpriceable_order",
)


# ---------------------------------------------------------------------------
# generation
# ---------------------------------------------------------------------------

def _price(rng, lo=0.5, hi=500.0):
    # four decimals so that sub-cent amounts exist
    p = math.exp(rng.uniform(math.log(lo), math.log(hi)))
    return round(p, 4)


def _quote(rng, base=None):
    if base is None:
        base = _price(rng)
    else:
        base = max(0.05, round(base * math.exp(rng.gauss(0.0, 0.04)), 4))
    r = rng.random()
    if r < 0.15:
        spread = 0.0001
    elif r < 0.8:
        spread = round(base * rng.uniform(0.0002, 0.01) + 0.0001, 4)
    else:
        spread = round(base * rng.uniform(0.01, 0.1) + 0.0001, 4)
    bid = round(base, 4)
    ask = round(base + spread, 4)
    if ask == bid:
        ask = round(bid + 0.0001, 4)
    if rng.random() < 0.03:
        bid, ask = ask, bid  # crossed quote: still bid != ask
    return bid, ask


def _amount(rng):
    r = rng.random()
    if r < 0.15:
        return float(rng.choice([0.0, 0.01, 1.0, 100.0, 1e4, 1e5, 1e6]))
    if r < 0.6:
        return round(math.exp(rng.uniform(math.log(1.0), math.log(1e6))), 2)
    return round(math.exp(rng.uniform(math.log(0.01), math.log(1e6))), 4)


def _qty(rng):
    r = rng.random()
    if r < 0.2:
        q = rng.choice([1, 2, 10, 100, 1000])
    elif r < 0.9:
        q = rng.randrange(1, 2000)
    else:
        q = rng.randrange(2000, 200000)
    return q if rng.random() < 0.5 else -q


def generate(rng, focus, tier="quick"):
    """Produce the whole operation/fault plan for one run (JSON-serialisable)."""
    n_assets = rng.randrange(1, 5)
    max_pf = rng.randrange(1, 4)
    if rng.random() < (0.25 if tier == "thorough" else 0.08):
        # larger books: behaviour that only shows for the N-th portfolio or asset
        n_assets = rng.randrange(5, 9)
        max_pf = rng.randrange(4, 7)
    assets = ASSETS[:n_assets]
    wide = None
    if rng.random() < (0.08 if tier == "thorough" else 0.04):
        # very wide books: behaviour that switches on at a particular COUNT of open positions
        wide = rng.choice([17, 33, 48, 65, 130] + ([260] if tier == "thorough" else []))
        max_pf = rng.randrange(1, 3)
    if wide is None and rng.random() < 0.35:
        # legal but unusual symbols: lower case, dots, a percent sign, blanks inside
        assets = rng.sample(["EQ:spy", "EQ:Brk.b", "EQ:A%B", "EQ:AAA", "EQ:aaa", "EQ:X Y", "EQ:100%", "EQ:Q", "EQ:A{1}", "EQ:{x}"], min(n_assets, 8))
    # portfolio ids: usually p1, p2, ... in creation order; sometimes names whose sorted order differs from the
    # order of creation
    pids_run = list(PIDS_DEFAULT)
    if rng.random() < 0.5:
        pids_run = rng.sample(["b", "a", "p10", "p2", "Z", "m", "p1", "0009", "7", "12", "60%/40%", "x y", "100%_eq", "master", "master",
                               "core{usd}", "{", "a}b{0}", "{0}"], 6)
    r = rng.random()
    if r < 0.3:
        fee = {"kind": "zero"}
    elif r < 0.42:
        fee = {"kind": "ticket", "fixed": rng.choice([0.5, 1.0, 9.99, 25.0]), "c": rng.choice([0.0, 1e-4, 1e-3])}
    elif r < 0.5:
        fee = rng.choice([{"kind": "subzero", "c": rng.choice([1e-3, 0.01])},
                          {"kind": "subpct", "c": rng.choice([0.0, 1e-3]), "t": 0.5, "t2": rng.choice([0.0, 5e-3])}])
    else:
        rates = [0.0, 1e-4, 5e-4, 1e-3, 2.5e-3, 5e-3, 0.01, 0.05]
        fee = {"kind": "pct", "c": rng.choice(rates), "t": rng.choice(rates[:6] + [0.0, 0.0])}
        if rng.random() < 0.06:
            fee = {"kind": "pct", "c": rng.choice([0.25, 0.5, 0.9, 1.0]), "t": rng.choice([0.0, 0.1, 0.5, 1.0])}
    if wide:
        assets = ["EQ:W%03d" % k for k in range(wide)]
    start = timegen.start_instant(rng)
    refused_rate = 0.30 if "C15" in focus else 0.15
    if rng.random() < 0.15:
        refused_rate = 0.0  # fault-free configuration, run separately from fault-injecting ones
    enabled = [k for k in REFUSED_OPS if rng.random() < 0.7] if refused_rate else []
    if refused_rate and not enabled:
        enabled = [rng.choice(REFUSED_OPS)]
    n_ops = rng.choice([10, 15, 20, 30, 40, 60, 80, 120]) if tier == "quick" else \
        rng.choice([10, 20, 40, 60, 80, 120, 160, 240])
    closed_bias = rng.choice([0.2, 0.35, 0.5])
    burst = rng.random() < 0.5
    cfg = {
        "start": start,
        "initial_funds": rng.choice([0.0, 1e4, 1e5, 1e6, 1e6, 123456.78]),
        "fee": fee,
        "assets": assets,
        "np_quotes": rng.random() < 0.5,
        "quotes0": {a: list(_quote(rng)) for a in assets},
        "ccy": rng.choice(["USD", "USD", "GBP", "EUR"]),
        "np_qty": rng.random() < 0.2,
        "print_events": rng.random() < 0.15,      # the library's default is to print every event
        "int_ids": rng.random() < 0.5,
        "int_quotes": rng.random() < 0.1,         # a data handler serving whole prices as numpy integers
        "mid_frac": rng.choice([0.5, 0.5, 0.5, 0.25, 0.0, 1.0]),   # where inside the quote the handler's own mid lies
        "huge_cash": rng.random() < 0.03,
        "exchange_start_offset": rng.choice([0, 0, 0, -30 * DAY, 30 * DAY, 400 * DAY]),
        "int_amounts": rng.random() < 0.2,
        "ctor_positional": rng.random() < 0.25,
        "sym_mode": rng.choice([None] * 8 + ["enum", "np_str"]),
        "big_int_prices": (("C02" in focus or "C03" in focus) and "C01" not in focus and rng.random() < 0.05),
    }
    if cfg["big_int_prices"]:
        # arbitrary-precision arithmetic needs Python numbers throughout: a numpy int64 quantity times such a price
        # wraps in numpy itself, whatever the library does
        cfg["np_qty"] = False
        cfg["int_quotes"] = False
        cfg["np_quotes"] = False
    if cfg["int_quotes"]:
        cfg["np_quotes"] = False
        cfg["quotes0"] = dict((a, [float(int(q[0]) + 1), float(int(q[0]) + 3)]) for a, q in cfg["quotes0"].items())
    ops = []
    sh = {"pids": [], "now": start, "pending": 0, "held": set(), "quotes": dict(
        (a, cfg["quotes0"][a][0]) for a in assets)}

    def emit(op):
        ops.append(op)

    # warm-up: get money and a portfolio in place so that runs make progress
    if cfg["huge_cash"]:
        emit({"k": "asub", "amt": {"v": 2.0 ** 60}})       # balances beyond 2**53: floats no longer hold every integer
    emit({"k": "asub", "amt": {"v": rng.choice([1e5, 1e6, 5e6, 987654.32])}})
    emit({"k": "mkpf", "pid": pids_run[0]})
    sh["pids"].append(pids_run[0])
    emit({"k": "psub", "pid": pids_run[0], "amt": {"v": rng.choice([1e4, 1e5, 5e5, 43210.99])}})

    def tick_op():
        if rng.random() < closed_bias:
            kind = rng.choice(["overnight", "sat", "sun", "open_m1", "close", "close_p1",
                               "fri_close", "mon_open_m1"])
        else:
            kind = None
        kind, t = timegen.next_instant(rng, sh["now"], kind)
        sh["now"] = t
        if is_open_ref(t):
            sh["pending"] = 0
        return {"k": "tick", "t": t, "why": kind}

    def order_op():
        pid = rng.choice(sh["pids"])
        a = rng.choice(assets)
        r2 = rng.random()
        if r2 < 0.12 and (pid, a) in sh["held"]:
            q = {"rel": "close"}          # close to exactly zero
        elif r2 < 0.24 and (pid, a) in sh["held"]:
            q = {"rel": "flip", "mul": rng.choice([1.5, 2.0, 3.0])}  # through zero in one fill
        elif r2 < 0.30:
            q = {"rel": "cash", "mul": rng.choice([1.5, 3.0])}  # buy beyond cash
        else:
            q = {"v": _qty(rng)}
        sh["held"].add((pid, a))
        sh["pending"] += 1
        op = {"k": "order", "pid": pid, "asset": a, "qty": q}
        r3 = rng.random()
        if r3 < 0.05:
            op["preset_commission"] = rng.choice([1.0, 9.99, 0.01, 250.0])   # Order(commission=...) "if known"
        elif r3 < 0.10:
            op["resubmit"] = rng.randrange(0, 50)     # re-send an Order object that was already filled
        elif r3 < 0.18:
            op["stamp_offset"] = rng.choice([6 * 3600, DAY, 30 * DAY, -DAY])   # the Order's own timestamp is a label
        return op

    if wide:
        # open a position in every asset first, so that the book really is that wide
        for a in assets:
            emit({"k": "order", "pid": pids_run[0], "asset": a, "qty": {"v": rng.choice([1, 5, 10, -3, -7, 100])}})
            sh["held"].add((pids_run[0], a))
        _, t_w = timegen.next_instant(rng, sh["now"], "inhours")
        sh["now"] = t_w
        emit({"k": "tick", "t": t_w, "why": "inhours"})

    if "C15" in focus and not wide and max_pf >= 2 and rng.random() < 0.12:
        # nothing is held yet: two portfolios with DIFFERENT clocks (one gets a transfer after the clock has moved
        # on through closed hours), an order pending in the later one, then a step back to an in-hours instant
        # between the two portfolio clocks - illegal only because of that pending order
        pid2 = pids_run[1]
        sh["pids"].append(pid2)
        emit({"k": "mkpf", "pid": pid2})
        emit({"k": "psub", "pid": pid2, "amt": {"v": rng.choice([1e3, 1e4])}})
        for _ in range(rng.randrange(1, 4)):
            _, t_p = timegen.next_instant(rng, sh["now"], rng.choice(["overnight", "sat", "sun", "close_p1", "inhours"]))
            sh["now"] = t_p
            emit({"k": "tick", "t": t_p, "why": "prelude"})
        pid_x = rng.choice(sh["pids"])
        emit({"k": "psub", "pid": pid_x, "amt": {"v": rng.choice([0.0, 1.0, 250.0])}})
        emit({"k": "order", "pid": pid_x, "asset": rng.choice(assets), "qty": {"v": _qty(rng)}})
        cand = sh["now"] - rng.choice([1, 60, 1800])
        for _ in range(400):
            if is_open_ref(cand):
                break
            cand -= 1800
        emit({"k": "tick", "back": max(1, sh["now"] - cand), "stay": rng.random() < 0.5, "fault": "clock_regress_pending"})

    def fault_op():
        kind = rng.choice(enabled)
        pid = rng.choice(sh["pids"]) if sh["pids"] else pids_run[0]
        if kind == "neg_amount":
            return {"k": rng.choice(["asub", "awd", "psub", "pwd"]), "pid": pid,
                    "amt": {"v": -rng.choice([0.01, 1.0, 1e3, _amount(rng) + 0.01])}, "fault": kind}
        if kind == "overdraw_account" and cfg["huge_cash"] and rng.random() < 0.7:
            return {"k": "awd", "amt": {"of": "master", "int_plus": rng.choice([1, 100, 127])}, "fault": kind}
        if kind == "overfund_portfolio" and cfg["huge_cash"] and rng.random() < 0.7:
            return {"k": "psub", "pid": pid, "amt": {"of": "master", "int_plus": rng.choice([1, 100, 127])}, "fault": kind}
        if kind == "overdraw_account":
            return {"k": "awd", "amt": {"of": "master", "mul": rng.choice([1.0, 1.0, 2.0]),
                                        "add": rng.choice([0.0001, 0.004, 0.01, 1.0, 1e3])}, "fault": kind}
        if kind == "overdraw_portfolio" and rng.random() < 0.3:
            return {"k": "pwd", "pid": pid, "amt": {"of": "pf", "zero_when_negative": rng.choice([0.0, 0.0, -0.0])},
                    "fault": kind}
        if kind == "overdraw_portfolio":
            return {"k": "pwd", "pid": pid, "amt": {"of": "pf", "mul": rng.choice([1.0, 1.0, 2.0]),
                                                   "add": rng.choice([0.0001, 0.004, 0.01, 1.0, 1e3])}, "fault": kind}
        if kind == "overfund_portfolio":
            return {"k": "psub", "pid": pid, "amt": {"of": "master", "mul": 1.0,
                                                    "add": rng.choice([0.0001, 0.004, 0.01, 1.0, 1e3])}, "fault": kind}
        if kind == "unknown_portfolio":
            api = rng.choice(["psub", "pwd", "order", "get_cash", "get_mv", "get_eq", "get_dict"])
            bad = rng.choice(["nope", "p9", "", "P1"])
            if api in ("psub", "pwd"):
                amt = {"v": _amount(rng)} if rng.random() < 0.8 else {"v": -1.0}
                return {"k": api, "pid": bad, "amt": amt, "fault": kind}
            if api == "order":
                return {"k": "order", "pid": bad, "asset": rng.choice(assets), "qty": {"v": _qty(rng)},
                        "fault": kind}
            return {"k": "getter", "api": api, "pid": bad, "fault": kind}
        if kind == "dup_portfolio":
            return {"k": "mkpf", "pid": pid, "fault": kind}
        if kind == "bad_currency":
            if rng.random() < 0.5:
                return {"k": "getter", "api": "get_ccy", "ccy": rng.choice(["XXX", "usd", "JPY", ""]),
                        "fault": kind}
            return {"k": "ctor", "what": "currency", "val": rng.choice(["XXX", "usd", "JPY"]),
                    "fault": kind}
        if kind == "neg_initial_funds":
            return {"k": "ctor", "what": "funds", "val": -rng.choice([0.01, 1.0, 1e6]), "fault": kind}
        if kind == "bad_fee_model":
            return {"k": "ctor", "what": "fee", "val": rng.choice(["str", "none", "class", "obj"]),
                    "fault": kind}
        if kind == "pf_early_dt":
            return {"k": "pfdirect", "pid": pid, "api": rng.choice(["sub", "wd", "txn", "mark"]),
                    "back": rng.choice([1, 60, 3600, DAY, 400 * DAY]), "asset": rng.choice(assets),
                    "amt": rng.choice([1.0, 100.0, -5.0]), "fault": kind}
        if kind == "pf_direct_bad_amount":
            api_ = rng.choice(["sub_neg", "wd_neg", "wd_over"])
            # over the balance by a little, by a lot - or by nothing at all when the portfolio is overdrawn already
            return {"k": "pfdirect", "pid": pid, "api": api_,
                    "back": 0, "asset": rng.choice(assets),
                    "amt": rng.choice([0.01, 5.0, 1e4] + ([0.0, 0.0] if api_ == "wd_over" else [])),
                    "fault": kind}
        if kind in ("neg_mark", "zero_mark"):
            return {"k": "pfdirect", "pid": pid, "api": "mark_bad", "back": 0,
                    "asset": rng.choice(assets),
                    "amt": (-rng.choice([0.01, 1.0, 100.0]) if kind == "neg_mark" else 0.0),
                    "fault": kind}
        if kind == "unpriceable_order":
            # an order whose asset has no quote at the next in-hours update: update() raises mid-batch;
            # the run carries on (what became of the batch is unspecified; later fills are judged again)
            a = rng.choice(assets)
            seq = []
            if len(assets) > 1 and rng.random() < 0.7:
                other = rng.choice([x for x in assets if x != a])
                seq.append({"k": "order", "pid": pid, "asset": other, "qty": {"v": _qty(rng)}})
            seq.append({"k": "dropquote", "asset": a, "fault": kind})
            seq.append({"k": "order", "pid": pid, "asset": a, "qty": {"v": _qty(rng)}})
            t = timegen.next_inhours(rng, sh["now"])
            sh["now"] = t
            seq.append({"k": "tick", "t": t, "why": "unpriceable"})
            b, k_ = _quote(rng, sh["quotes"][a])
            seq.append({"k": "quote", "asset": a, "bid": b, "ask": k_})
            for o in seq[:-1]:
                emit(o)
            return seq[-1]
        if kind in ("clock_regress", "clock_regress_pending"):
            if kind == "clock_regress_pending" and rng.random() < 0.7:
                # make sure something is pending in the youngest portfolio (the one with the latest clock)
                emit({"k": "order", "pid": sh["pids"][-1], "asset": rng.choice(assets), "qty": {"v": _qty(rng)}})
            elif kind == "clock_regress_pending" and len(sh["pids"]) > 1:
                # ... or in any one portfolio whose clock has just been moved to "now" by a small transfer, while the
                # other portfolios' clocks stay where they were
                pid_ = rng.choice(sh["pids"])
                emit({"k": "psub", "pid": pid_, "amt": {"v": rng.choice([0.0, 1.0, 250.0])}})
                emit({"k": "order", "pid": pid_, "asset": rng.choice(assets), "qty": {"v": _qty(rng)}})
            stay = rng.random() < 0.5
            back = rng.choice([1, 60, 3600, 7 * 3600, DAY, 3 * DAY, 30 * DAY])
            if kind == "clock_regress_pending" and rng.random() < 0.5:
                # land inside exchange hours (only there does a pending order make the step back illegal)
                cand = sh["now"] - rng.choice([1, 60, 1800])
                for _ in range(400):
                    if is_open_ref(cand):
                        break
                    cand -= 1800
                back = max(1, sh["now"] - cand)
            op = {"k": "tick", "back": back, "stay": stay, "fault": kind}
            if stay and rng.random() < 0.7:
                # life goes on on the regressed clock: transfers, orders and small forward steps from there,
                # so that portfolio clocks lie in the future of the broker clock
                emit(op)
                for _ in range(rng.randrange(2, 7)):
                    r3 = rng.random()
                    if r3 < 0.4:
                        emit(order_op())
                    elif r3 < 0.6:
                        emit({"k": "psub", "pid": rng.choice(sh["pids"]), "amt": {"v": _amount(rng)}})
                    else:
                        emit({"k": "tick", "fwd": rng.choice([0, 1, 60, 3600, 5 * 3600, 17 * 3600, DAY]),
                              "why": "forward_on_regressed_clock"})
                return {"k": "tick", "fwd": rng.choice([0, 60, 3600, 6 * 3600, DAY]), "why": "forward_on_regressed_clock"}
            return op
        raise AssertionError(kind)

    while len(ops) < n_ops:
        r = rng.random()
        # place refused requests preferentially where there is in-flight state
        inflight = sh["pending"] > 0 or bool(sh["held"])
        p_fault = refused_rate * (1.3 if inflight else 0.5)
        if enabled and r < p_fault:
            emit(fault_op())
            continue
        r = rng.random()
        if r < 0.26:
            emit(tick_op())
        elif r < 0.56:
            if burst and rng.random() < 0.4:
                for _ in range(rng.randrange(2, 6)):
                    emit(order_op())
            else:
                emit(order_op())
        elif r < 0.68:
            a = rng.choice(assets)
            hist = sh.setdefault("qhist", {}).setdefault(a, [tuple(cfg["quotes0"][a])])
            r4_ = rng.random()
            if r4_ < 0.15:
                b, k = rng.choice(hist)                      # exactly an earlier quote of this asset again
            elif r4_ < 0.2:
                pb, pk = hist[-1]
                b, k = (pk, round(pk + 0.01, 4))             # the new bid is exactly the previous ask
            else:
                b, k = _quote(rng, sh["quotes"][a])
            hist.append((b, k))
            sh["quotes"][a] = min(b, k)
            emit({"k": "quote", "asset": a, "bid": b, "ask": k})
        elif r < 0.76:
            pid = rng.choice(sh["pids"])
            if rng.random() < 0.15:
                amt = {"of": "master", "mul": 1.0, "add": 0.0}   # exactly the master balance
            else:
                amt = {"v": _amount(rng)}
            emit({"k": "psub", "pid": pid, "amt": amt})
        elif r < 0.83:
            pid = rng.choice(sh["pids"])
            if rng.random() < 0.25:
                amt = {"of": "pf", "mul": 1.0, "add": 0.0}       # exactly the portfolio balance
            else:
                amt = {"of": "pf", "mul": round(rng.uniform(0.0, 0.9), 3), "add": 0.0}
            emit({"k": "pwd", "pid": pid, "amt": amt})
        elif r < 0.88:
            emit({"k": "asub", "amt": {"v": _amount(rng)}})
        elif r < 0.92:
            if rng.random() < 0.3:
                amt = {"of": "master", "mul": 1.0, "add": 0.0}
            else:
                amt = {"of": "master", "mul": round(rng.uniform(0.0, 0.9), 3), "add": 0.0}
            emit({"k": "awd", "amt": amt})
        elif r < 0.93:
            pid = rng.choice(sh["pids"])
            a = rng.choice(assets)
            emit({"k": "mark", "pid": pid, "asset": a, "price": max(0.01, round(sh["quotes"][a] * math.exp(rng.gauss(0, 0.05)), 4)),
                  "via": rng.choice(["portfolio", "portfolio", "position", "position_dt"])})
        elif r < (0.99 if cfg["big_int_prices"] else (0.955 if "C03" in focus else 0.94)):
            pid = rng.choice(sh["pids"])
            a = rng.choice(assets)
            n = rng.randrange(1, 4)
            oid = rng.randrange(1000)
            for j in range(n):
                same = j > 0 and rng.random() < 0.7
                if not same:
                    oid = rng.randrange(1000)
                qv = _qty(rng) if rng.random() < 0.7 else rng.choice([100, -100, 40, -40])
                if "C03" in focus and rng.random() < 0.3:
                    # C03 quantifies over real-valued quantities: dyadic fractions keep float arithmetic exact
                    qv = rng.choice([0.5, -0.5, 0.25, 2.5, -2.5, 100.5, -100.5, 0.75, -0.75, 10.25])
                emit({"k": "pftxn", "pid": pid, "asset": a, "qty": qv,
                      "price": (0.0 if ("C03" in focus and rng.random() < 0.06) else
                                max(0.01, round(sh["quotes"][a] * math.exp(rng.gauss(0, 0.05)), 4))),
                      "comm": (rng.choice([0.0, 1.0, -1.0, 2.5, -2.5, 1.0, -1.0, round(rng.uniform(-20, 50), 2)])
                               if "C03" in focus else        # C03 quantifies over all real-valued commissions (rebates)
                               rng.choice([0.0, 0.0, 1.0, 2.5, round(rng.uniform(0, 50), 2)])),
                      "oid": oid, "same_oid": same})
                if rng.random() < 0.15:
                    # stamped later than the broker clock (the portfolio API takes any time >= its own clock): this
                    # position and its portfolio then run ahead of every other clock
                    ops[-1]["ahead"] = rng.choice([1, 60, 3600, 6 * 3600, DAY, 2 * DAY])
            sh["held"].add((pid, a))
        elif r < 0.952:
            emit({"k": "setfee", "fee": rng.choice([{"kind": "zero"}, {"kind": "pct", "c": rng.choice([1e-3, 0.01]), "t": rng.choice([0.0, 5e-3])},
                                                    {"kind": "pct", "c": rng.choice([2e-3, 0.02]), "t": rng.choice([0.0, 1e-3])}]),
                  "in_place": rng.random() < 0.6})
        elif r < 0.96 and "C03" in focus and rng.random() < 0.4:
            # a free-standing Position driven through its whole life directly (the handler deletes flat
            # positions, so "flat, then traded again" on ONE Position object exists only here)
            steps, net = [], 0
            for j in range(rng.randrange(2, 9)):
                u = rng.random()
                if net != 0 and u < 0.35:
                    q = -net                                            # exactly flat
                elif net != 0 and u < 0.5:
                    q = -net - (1 if net > 0 else -1) * rng.choice([10, 50, 0.5])   # flipped through zero
                else:
                    q = rng.choice([100, -100, 50, -50, 10, -10, 7, -7, 0.5, -0.5, 2.5, -2.5])
                net += q
                steps.append({"q": q, "p": round(rng.uniform(1, 200), 2),
                              "c": rng.choice([0.0, 1.0, -1.0, 2.5, round(rng.uniform(-20, 50), 2)]),
                              "mark": round(rng.uniform(1, 200), 2) if rng.random() < 0.5 else None})
            emit({"k": "poslife", "asset": rng.choice(assets), "steps": steps})
        elif r < 0.96 and rng.random() < 0.5:
            # a what-if clone of a live Position (copy / deepcopy / pickle), traded and re-marked on its own
            emit({"k": "whatif", "pid": rng.choice(sh["pids"]), "asset": rng.choice(assets), "qty": _qty(rng),
                  "how": rng.choice(["copy", "copy", "deepcopy", "pickle"]),
                  "price": max(0.01, round(sh["quotes"][rng.choice(assets)] * 1.07, 4)), "comm": rng.choice([0.0, 1.0, 12.5])})
        elif r < 0.96:
            emit({"k": "broker2", "pid": rng.choice(pids_run), "funds": rng.choice([1e3, 1e5, 77.7]),
                  "asset": rng.choice(assets), "qty": _qty(rng)})
        elif r < 0.97 and len(sh["pids"]) < max_pf:
            pid = pids_run[len(sh["pids"])]
            sh["pids"].append(pid)
            emit({"k": "mkpf", "pid": pid})
            if rng.random() < 0.8:
                emit({"k": "psub", "pid": pid, "amt": {"v": rng.choice([1e3, 1e4, 1e5, 77777.77])}})
        else:
            emit(tick_op())
    # bounded liveness: finish with an in-hours tick so that every pending order must have filled
    if rng.random() < 0.85:
        t = timegen.next_inhours(rng, sh["now"])
        emit({"k": "tick", "t": t, "why": "final_inhours"})
        if rng.random() < 0.5:
            emit({"k": "tick", "t": t + rng.choice([0, 1, 3600, DAY]), "why": "after_final"})
    return {"world": NAME, "cfg": cfg, "ops": ops}


# ---------------------------------------------------------------------------
# reference model
# ---------------------------------------------------------------------------

class MPos(object):
    __slots__ = ("net", "last", "fills", "epoch_id", "clock")

    def __init__(self, epoch_id):
        self.clock = None     # time of the last mark or fill of this position
        self.net = 0
        self.last = None
        self.fills = []       # (price float, qty int, commission float) since the position was opened
        self.epoch_id = epoch_id


class MPf(object):
    def __init__(self, pid, now):
        self.pid = pid
        self.cash = Fraction(0)
        self.clock = now
        self.pending = []     # list of dict(oid, asset, qty)
        self.pos = {}         # asset -> MPos (only while net != 0)
        self.rows = []        # expected history rows: (type, sec, debit Fraction, credit Fraction, balance Fraction)
        self.flow = Fraction(0)   # gross cash flow, the scale for rule 1
        self.n_open = 0


class Ledger(object):
    def __init__(self, cfg):
        self.master = frac(cfg["initial_funds"]) if cfg["initial_funds"] > 0 else Fraction(0)
        self.master_flow = abs(self.master)
        self.now = cfg["start"]
        self.pfs = {}
        self.order = []       # creation order of pids
        self.last_tick = None

    def any_position(self):
        return any(p.pos for p in self.pfs.values())

    def any_pending(self):
        return any(p.pending for p in self.pfs.values())


# ---------------------------------------------------------------------------
# execution
# ---------------------------------------------------------------------------

class _Sys(object):
    """The wired real system of one run."""
    pass


def _build(cfg):
    from qstrader.broker.simulated_broker import SimulatedBroker
    from qstrader.exchange.simulated_exchange import SimulatedExchange
    from qstrader.broker.fee_model.zero_fee_model import ZeroFeeModel
    from qstrader.broker.fee_model.percent_fee_model import PercentFeeModel
    s = _Sys()
    s.qb = QuoteBook(numpy_floats=cfg.get("np_quotes", False), numpy_ints=cfg.get("int_quotes", False),
                     python_int_scale=(10 ** 13 if cfg.get("big_int_prices") else None))
    s.qb.mid_frac = cfg.get("mid_frac", 0.5)
    for a, (b, k) in sorted(cfg["quotes0"].items()):
        s.qb.set(a, b, k)
    fee = cfg["fee"]
    if fee["kind"] == "zero":
        s.fee = ZeroFeeModel()
        s.rate = Fraction(0)
    elif fee["kind"] in ("subzero", "subpct"):
        s.fee = make_sub_fee(fee)
        s.rate = frac(fee["c"]) + (frac(fee["t2"]) if fee["kind"] == "subpct" else Fraction(0))
    elif fee["kind"] == "ticket":
        # harness stub: a FeeModel subclass (the documented extension point) charging a fixed ticket
        # amount plus a percentage, so that commissions are not proportional to the consideration
        from qstrader.broker.fee_model.fee_model import FeeModel

        class TicketFeeModel(FeeModel):
            def __init__(self, fixed, pct):
                self.fixed, self.pct = fixed, pct

            # the fourth parameter carries another name than in the base class: the broker hands it over by position
            def _calc_commission(self, asset, quantity, consideration, account=None):
                return self.fixed + self.pct * abs(consideration)

            def _calc_tax(self, asset, quantity, consideration, account=None):
                return 0.0

            def calc_total_cost(self, asset, quantity, consideration, account=None):
                return self._calc_commission(asset, quantity, consideration, account) + \
                    self._calc_tax(asset, quantity, consideration, account)
        s.fee = TicketFeeModel(fee["fixed"], fee["c"])
        s.rate = frac(fee["c"])
    else:
        s.fee = PercentFeeModel(commission_pct=fee["c"], tax_pct=fee["t"])
        s.rate = frac(fee["c"]) + frac(fee["t"])
    s.fixed_fee = float(fee.get("fixed", 0.0))
    t0 = ts(cfg["start"])
    # the exchange object may have been built for another window than the broker (its start_dt is informational)
    s.exchange = SimulatedExchange(ts(cfg["start"] + cfg.get("exchange_start_offset", 0)))
    s.ccy = cfg.get("ccy", "USD")
    if cfg.get("ctor_positional"):
        # the documented parameter order, given positionally
        s.broker = SimulatedBroker(t0, s.exchange, s.qb, "sim", s.ccy, cfg["initial_funds"], s.fee)
    else:
        s.broker = SimulatedBroker(t0, s.exchange, s.qb, account_id="sim", base_currency=s.ccy,
                                   initial_funds=cfg["initial_funds"], fee_model=s.fee)
    s.captured = []       # transactions seen at the portfolio seam during the current op
    s.int_amounts = cfg.get("int_amounts", False)
    return s


def make_sub_fee(fee):
    """Fee models built on the documented extension points: a ZeroFeeModel subclass that does charge a
    commission, a PercentFeeModel subclass that overrides only the tax hook."""
    from qstrader.broker.fee_model.zero_fee_model import ZeroFeeModel
    from qstrader.broker.fee_model.percent_fee_model import PercentFeeModel
    # Both use the documented optional ``broker`` argument: the account's rate applies when the broker reference
    # is handed over (as the broker and both order sizers do), a ten times dearer "list price" otherwise.
    if fee["kind"] == "subzero":
        class CommissionOnly(ZeroFeeModel):
            def __len__(self):
                return 0                       # "number of per-asset overrides": none - the object is falsy

            def _calc_commission(self, asset, quantity, consideration, broker=None):
                return fee["c"] * abs(consideration) * (1.0 if broker is not None else 10.0)
        return CommissionOnly()

    class StampDuty(PercentFeeModel):
        def __len__(self):
            return 0                           # "number of per-asset overrides": none - the object is falsy

        def _calc_tax(self, asset, quantity, consideration, broker=None):
            return fee["t2"] * abs(consideration) * (1.0 if broker is not None else 10.0)
    return StampDuty(commission_pct=fee["c"], tax_pct=fee["t"])


def _wrap_portfolio(s, pid):
    """Capture every Transaction that reaches the portfolio (instance wrapping, no repo hook)."""
    pf = s.broker.portfolios[pid]
    inner = pf.transact_asset

    def transact_asset(txn, _inner=inner, _pid=pid):
        rec = {"pid": _pid, "asset": txn.asset, "qty": txn.quantity, "price": txn.price,
               "comm": txn.commission, "dt": txn.dt, "oid": getattr(txn, "order_id", None),
               "raised": None}
        s.captured.append(rec)
        try:
            return _inner(txn)
        except Exception as e:
            rec["raised"] = type(e).__name__
            raise

    pf.transact_asset = transact_asset


def _queue_items(q):
    """Pending orders of one portfolio, oldest first, whatever container the broker uses."""
    inner = getattr(q, "queue", None)
    if inner is not None:
        return list(inner)
    return list(q)


def _pending_ids(s, pid):
    return [(o.order_id, o.asset, o.quantity) for o in _queue_items(s.broker.open_orders[pid])]


def _hist_rows(pf):
    return [(str(e.dt), e.type, e.description, fhex(e.debit), fhex(e.credit), fhex(e.balance))
            for e in pf.history]


def snapshot(s):
    """The state C15 lists: cash balances, holdings, pending orders, history entries."""
    b = s.broker
    snap = {"master": tuple(sorted((c, fhex(v)) for c, v in b.get_account_cash_balance().items())),
            "pids": tuple(b.portfolios.keys())}
    for pid, pf in b.portfolios.items():
        d = pf.portfolio_to_dict()
        snap["cash:" + pid] = (fhex(b.get_portfolio_cash_balance(pid)), fhex(pf.cash))
        snap["pos:" + pid] = tuple(
            (a, fhex(v["quantity"]), fhex(v["market_value"]), fhex(v["unrealised_pnl"]),
             fhex(v["realised_pnl"]), fhex(v["total_pnl"])) for a, v in d.items())
        snap["pend:" + pid] = tuple(_pending_ids(s, pid))
        snap["hist:" + pid] = tuple(_hist_rows(pf))
    return snap


def _snap_diff(a, b):
    out = []
    for k in sorted(set(a) | set(b)):
        if a.get(k) != b.get(k):
            out.append(k)
    return out


def _resolve_amt(spec, s, m, pid):
    if "v" in spec:
        v = float(spec["v"])
        if getattr(s, "int_amounts", False) and v == int(v):
            return int(v)         # whole amounts handed over as Python ints
        return v
    if spec["of"] == "master":
        base = float(s.broker.get_account_cash_balance(s.ccy))
    else:
        if pid in s.broker.portfolios:
            base = float(s.broker.get_portfolio_cash_balance(pid))
        else:
            base = 0.0
    if "zero_when_negative" in spec:
        # "nothing" is still more than an overdrawn portfolio holds; otherwise an ordinary small overdraw
        return float(spec["zero_when_negative"]) if base < 0 else base + 0.01
    if "int_plus" in spec:
        # a Python int just above the (float) balance: exact int/float comparison says "too much"
        return int(base) + int(spec["int_plus"])
    mul = spec.get("mul", 1.0)
    add = spec.get("add", 0.0)
    if mul == 1.0 and add == 0.0:
        return base
    return base * mul + add


def _resolve_qty(spec, s, m, pid, asset):
    if "v" in spec:
        return int(spec["v"])
    p = m.pfs.get(pid)
    net = p.pos[asset].net if (p is not None and asset in p.pos) else 0
    # pending orders in the same asset count toward what will be held when this order fills
    if p is not None:
        net += sum(o["qty"] for o in p.pending if o["asset"] == asset)
    if float(net) != int(net):
        # a fractional holding (direct transactions, C03 only) cannot be closed by a whole-number order
        net = int(net) or 1
    net = int(net)
    if spec["rel"] == "close":
        return -net if net != 0 else 7
    if spec["rel"] == "flip":
        if net == 0:
            return -13
        q = -int(round(net * spec.get("mul", 2.0)))
        return q if q != 0 else -net
    if spec["rel"] == "cash":
        cash = float(p.cash) if p is not None else 0.0
        b, a = s.qb.bid_ask(asset)
        q = int(max(1.0, cash, 1000.0) * spec.get("mul", 1.5) / max(float(a), 0.01)) + 1
        return min(q, 10 ** 7)        # quantities stay far below 2**53
    raise AssertionError(spec)


class Exec(object):
    def __init__(self, plan, ctx):
        self.plan = plan
        self.cfg = plan["cfg"]
        self.ctx = ctx
        self.s = _build(self.cfg)
        self.m = Ledger(self.cfg)
        self.next_oid = 0
        self.orders = {}          # oid -> dict(pid, asset, qty, submitted_step, filled(bool))
        self.prev_cash = {}       # "master"/pid -> hex after previous op
        self.prev_rp = {}         # (pid, asset, epoch) -> (realised hex, qty hex)
        self.epoch_counter = 0
        self.last_kind = "init"
        self.touched_cash = set()
        self.filled_assets = set()
        self.paths = set()

    # -- helpers -----------------------------------------------------------
    def _call(self, fn, *a, **k):
        """Run one request against the real system; returns (ok, exception)."""
        try:
            fn(*a, **k)
            return True, None
        except StopRun:
            raise
        except Exception as e:  # the type is judged by the caller
            return False, e

    def refused(self, kind, fn, allowed, label, optional=False):
        """Issue a request that the reference model says must be refused (C15).

        With optional=True the request may also be accepted (the property does not say whether it
        is valid), but it must leave the listed state untouched either way.
        The snapshot is always taken: if a refused request changed state while C15 is not the
        property being judged, the run is abandoned (models out of sync), never blamed on another
        property.
        """
        ctx = self.ctx
        s = self.s
        ctx.fault(kind)
        before = snapshot(s)
        n_cap = len(s.captured)
        ok, exc = self._call(fn)
        ctx.event("refused", label, kind, "accepted" if ok else type(exc).__name__)
        if ctx.judging("C15"):
            if ok and not optional:
                ctx.violate("C15", "silent_acceptance",
                            {"request": label, "fault": kind, "expected": [t.__name__ for t in allowed]},
                            sig="silent_acceptance:%s:%s" % (kind, label))
            elif not ok and not isinstance(exc, tuple(allowed)):
                ctx.violate("C15", "wrong_error_type",
                            {"request": label, "fault": kind, "got": type(exc).__name__,
                             "msg": str(exc)[:200], "expected": [t.__name__ for t in allowed]},
                            sig="wrong_error_type:%s:%s:%s" % (kind, label, type(exc).__name__))
            else:
                ctx.ok("C15")
        after = snapshot(s)
        if after != before:
            diff = _snap_diff(before, after)
            if ctx.judging("C15"):
                ctx.judged += 1
                ctx.violate("C15", "state_changed_by_refused_request",
                            {"request": label, "fault": kind, "changed": diff,
                             "raised": None if ok else type(exc).__name__,
                             "before": {k: before.get(k) for k in diff},
                             "after": {k: after.get(k) for k in diff}},
                            sig="state_changed:%s:%s:%s" % (kind, label,
                                                           ",".join(sorted(set(d.split(":")[0] for d in diff)))))
            # "nothing else ever changes a cash balance" (C01) / holdings are the net of the fills (C02):
            # a refused request that moved cash, history or holdings breaks those statements too
            kinds = set(d.split(":")[0] for d in diff)
            if kinds & set(["master", "cash", "hist"]):
                ctx.violate("C01", "cash_or_history_changed_by_refused_request",
                            {"request": label, "fault": kind, "changed": diff,
                             "before": {k: before.get(k) for k in diff if not k.startswith("hist")},
                             "after": {k: after.get(k) for k in diff if not k.startswith("hist")}},
                            sig="cash_or_history_changed_by_refused_request:%s" % kind)
            if "pos" in kinds:
                ctx.violate("C02", "holdings_changed_by_refused_request",
                            {"request": label, "fault": kind, "changed": diff},
                            sig="holdings_changed_by_refused_request:%s" % kind)
            ctx.probe("run_abandoned_after_refused_request_changed_state")
            raise StopRun()
        elif ctx.judging("C15"):
            ctx.judged += 1
        if (ok and not optional) or (not ok and not isinstance(exc, tuple(allowed))):
            # accepted although it had to be refused / unexpected error type: models may be out of sync
            ctx.probe("run_abandoned_after_unexpected_outcome_of_refused_request")
            raise StopRun()
        return ok, exc

    def _sig(self, kind, refused):
        m = self.m
        parts = [str(len(m.pfs))]
        for pid in m.order:
            p = m.pfs[pid]
            signs = "".join("+" if p.pos[a].net > 0 else "-" for a in sorted(p.pos))
            pend = len(p.pending)
            parts.append("%s/%s" % (signs, "0" if pend == 0 else ("1" if pend == 1 else ("s" if pend < 5 else "m"))))
        parts.append("O" if is_open_ref(m.now) else "C")
        parts.append(kind)
        parts.append("R" if refused else "v")
        self.ctx.sig(zlib.crc32("|".join(parts).encode()))
        self.ctx.bigrams.add(self.last_kind + ">" + kind)
        self.last_kind = kind

    # -- the run -----------------------------------------------------------
    def run(self):
        ctx = self.ctx
        ctx.event("run", NAME, fhex(self.cfg["initial_funds"]), self.cfg["fee"]["kind"], self.cfg["start"])
        try:
            self.after_op(None)
            if len(self.cfg["assets"]) >= 17:
                ctx.probe("very_wide_book")
            for i, op in enumerate(self.plan["ops"]):
                ctx.step = i
                self.s.captured = []
                self.touched_cash = set()
                self.filled_assets = set()
                try:
                    refused = self.do(op)
                    self._sig(op["k"] + (":" + op.get("api", "") if op["k"] in ("getter", "pfdirect", "ctor") else ""),
                              refused)
                    self.after_op(op)
                except StopRun:
                    raise
                except Exception as e:
                    from ..core import raised_in_repo
                    if not raised_in_repo(e):
                        raise          # a bug of the harness: exit 2, never a verdict
                    # a public getter / valid request of the code under test raised unexpectedly
                    for pr in sorted(ctx.focus):
                        ctx.violate(pr, "public_api_raised_unexpectedly",
                                    {"op": op, "exc": repr(e)[:300]},
                                    sig="public_api_raised_unexpectedly:" + type(e).__name__)
                    raise StopRun()
            self.final()
        except StopRun:
            pass
        first = self.cfg["start"]
        ctx.sim_seconds = max(0, (self.m.last_tick or first) - first)
        return ctx

    # -- operations --------------------------------------------------------
    def do(self, op):
        k = op["k"]
        return getattr(self, "op_" + k)(op)

    def op_asub(self, op):
        s, m, ctx = self.s, self.m, self.ctx
        amt = _resolve_amt(op["amt"], s, m, None)
        if amt < 0:
            self.refused("neg_amount", lambda: s.broker.subscribe_funds_to_account(amt),
                         (ValueError,), "subscribe_funds_to_account")
            return True
        ok, exc = self._call(s.broker.subscribe_funds_to_account, amt)
        ctx.event("asub", amt, ok)
        if not ok:
            ctx.violate("C01", "valid_request_refused", {"op": op, "exc": repr(exc)[:200]},
                        sig="valid_request_refused:asub")
            return False
        m.master += frac(amt)
        m.master_flow += abs(frac(amt))
        self.touched_cash.add("__master__")
        return False

    def op_awd(self, op):
        s, m, ctx = self.s, self.m, self.ctx
        amt = _resolve_amt(op["amt"], s, m, None)
        bal = float(s.broker.get_account_cash_balance(s.ccy))
        faults = []
        if amt < 0:
            faults.append("neg_amount")
        elif amt > bal:
            faults.append("overdraw_account")
        if faults:
            self.refused(faults[0], lambda: s.broker.withdraw_funds_from_account(amt),
                         (ValueError,), "withdraw_funds_from_account")
            return True
        if amt == bal and amt > 0:
            ctx.fault("exact_balance")
            ctx.probe("exact_balance_account_withdrawal")
        ok, exc = self._call(s.broker.withdraw_funds_from_account, amt)
        ctx.event("awd", amt, ok)
        if not ok:
            ctx.violate("C01", "valid_request_refused", {"op": op, "amt": amt, "balance": bal,
                                                         "exc": repr(exc)[:200]},
                        sig="valid_request_refused:awd")
            return False
        m.master -= frac(amt)
        m.master_flow += abs(frac(amt))
        self.touched_cash.add("__master__")
        return False

    def op_mkpf(self, op):
        s, m, ctx = self.s, self.m, self.ctx
        pid = op["pid"]
        if pid in m.pfs:
            self.refused("dup_portfolio", lambda: s.broker.create_portfolio(pid),
                         (ValueError,), "create_portfolio")
            return True
        # an id made of digits is handed over as an int now and then (create_portfolio documents str(id))
        arg = int(pid) if (pid.isdigit() and not pid.startswith("0") and self.cfg.get("int_ids")) else pid
        ok, exc = self._call(s.broker.create_portfolio, arg, "name-" + pid)
        ctx.event("mkpf", pid, ok)
        if not ok:
            for pr in ("C01", "C15"):
                ctx.violate(pr, "valid_request_refused", {"op": op, "exc": repr(exc)[:200]},
                            sig="valid_request_refused:mkpf")
            raise StopRun()
        m.pfs[pid] = MPf(pid, m.now)
        m.order.append(pid)
        _wrap_portfolio(s, pid)
        return False

    def _transfer(self, op, sub):
        s, m, ctx = self.s, self.m, self.ctx
        pid = op["pid"]
        amt = _resolve_amt(op["amt"], s, m, pid)
        api = s.broker.subscribe_funds_to_portfolio if sub else s.broker.withdraw_funds_from_portfolio
        label = "subscribe_funds_to_portfolio" if sub else "withdraw_funds_from_portfolio"
        faults = []
        allowed = []
        if amt < 0:
            faults.append("neg_amount")
            allowed.append(ValueError)
        if pid not in m.pfs:
            faults.append("unknown_portfolio")
            allowed.append(KeyError)
        else:
            if sub:
                bal = float(s.broker.get_account_cash_balance(s.ccy))
                if amt > bal:
                    faults.append("overfund_portfolio")
                    allowed.append(ValueError)
            else:
                bal = float(s.broker.get_portfolio_cash_balance(pid))
                if amt > bal:
                    faults.append("overdraw_portfolio")
                    allowed.append(ValueError)
            if m.now < m.pfs[pid].clock:
                faults.append("pf_early_dt")
                allowed.append(ValueError)
        if faults:
            self.refused(faults[0], lambda: api(pid, amt), tuple(allowed), label)
            return True
        if amt == bal and amt > 0:
            ctx.fault("exact_balance")
            ctx.probe("exact_balance_" + ("subscription" if sub else "portfolio_withdrawal"))
        ok, exc = self._call(api, pid, amt)
        ctx.event("psub" if sub else "pwd", pid, amt, ok)
        if not ok:
            ctx.violate("C01", "valid_request_refused",
                        {"op": op, "amt": amt, "balance": bal, "exc": repr(exc)[:200]},
                        sig="valid_request_refused:" + ("psub" if sub else "pwd"))
            return False
        p = m.pfs[pid]
        a = frac(amt)
        if sub:
            m.master -= a
            p.cash += a
            p.rows.append(("subscription", m.now, Fraction(0), a, p.cash))
        else:
            m.master += a
            p.cash -= a
            p.rows.append(("withdrawal", m.now, a, Fraction(0), p.cash))
        m.master_flow += abs(a)
        p.flow += abs(a)
        p.clock = max(p.clock, m.now)
        self.touched_cash.add("__master__")
        self.touched_cash.add(pid)
        return False

    def op_psub(self, op):
        return self._transfer(op, True)

    def op_pwd(self, op):
        return self._transfer(op, False)

    def op_order(self, op):
        from qstrader.execution.order import Order
        s, m, ctx = self.s, self.m, self.ctx
        pid = op["pid"]
        asset = op["asset"]
        qty = _resolve_qty(op["qty"], s, m, pid, asset)
        order = None
        if "resubmit" in op and pid in m.pfs:
            # the same Order object sent again after it was filled (a standing order re-sent): a new submission
            done = sorted(o for o, rec in self.orders.items() if rec["fills"] == 1 and rec.get("obj") is not None
                          and not any(x["oid"] == o for p_ in m.pfs.values() for x in p_.pending))
            if done:
                oid = done[op["resubmit"] % len(done)]
                order = self.orders[oid]["obj"]
                asset, qty = order.asset, int(order.quantity)
                ctx.probe("order_object_resubmitted_after_fill")
        if order is None:
            oid = "o%05d" % self.next_oid
            self.next_oid += 1
            kw = {}
            stamp = m.now + int(op.get("stamp_offset", 0))
            if "preset_commission" in op:
                kw["commission"] = float(op["preset_commission"])
                ctx.probe("order_with_preset_commission")
            if self.cfg.get("np_qty"):
                import numpy as np
                order = Order(ts(stamp), asset, np.int64(qty), order_id=oid, **kw)   # numpy integers are integers too
            else:
                order = Order(ts(stamp), asset, qty, order_id=oid, **kw)
        if pid not in m.pfs:
            self.refused("unknown_portfolio", lambda: s.broker.submit_order(pid, order),
                         (KeyError,), "submit_order")
            return True
        before = snapshot(s) if ctx.judging("C04") else None
        ok, exc = self._call(s.broker.submit_order, pid, order)
        ctx.event("order", pid, asset, qty, ok)
        if not ok:
            ctx.violate("C04", "valid_submission_refused", {"op": op, "exc": repr(exc)[:200]},
                        sig="valid_submission_refused")
            return False
        p = m.pfs[pid]
        p.pending.append({"oid": oid, "asset": asset, "qty": qty})
        self.orders[oid] = {"pid": pid, "asset": asset, "qty": qty, "step": ctx.step, "fills": 0, "obj": order}
        if ctx.judging("C04"):
            after = snapshot(s)
            # (i) submitting by itself never changes cash, holdings or history
            b2 = dict(before)
            a2 = dict(after)
            kq = "pend:" + pid
            exp_q = tuple(list(before[kq]) + [(oid, asset, qty)])
            ctx.check("C04", a2.pop(kq) == exp_q, "queue_after_submit",
                      lambda: {"expected": exp_q, "got": after[kq]})
            b2.pop(kq)
            ctx.check("C04", a2 == b2, "submit_changed_state",
                      lambda: {"changed": _snap_diff(b2, a2)})
        if s.captured:
            ctx.violate("C04", "fill_on_submit", {"txns": [(c["asset"], c["qty"]) for c in s.captured]})
        return False

    def op_setfee(self, op):
        """The configured fee model is replaced by assigning the broker's public attribute."""
        s = self.s
        tmp = _Sys()
        fee = op["fee"]
        from qstrader.broker.fee_model.zero_fee_model import ZeroFeeModel
        from qstrader.broker.fee_model.percent_fee_model import PercentFeeModel
        if fee["kind"] == "pct" and op.get("in_place") and type(s.broker.fee_model) is PercentFeeModel:
            # the rates of the model in use are re-negotiated: its public attributes are assigned, the object stays
            s.broker.fee_model.commission_pct = fee["c"]
            s.broker.fee_model.tax_pct = fee["t"]
            s.rate = frac(fee["c"]) + frac(fee["t"])
            self.ctx.event("setfee", "in_place")
            self.ctx.probe("fee_rates_changed_in_place")
            return False
        if fee["kind"] == "zero":
            new, rate = ZeroFeeModel(), Fraction(0)
        else:
            new, rate = PercentFeeModel(commission_pct=fee["c"], tax_pct=fee["t"]), frac(fee["c"]) + frac(fee["t"])
        s.broker.fee_model = new
        s.fee, s.rate, s.fixed_fee = new, rate, 0.0
        self.ctx.event("setfee", fee["kind"])
        self.ctx.probe("fee_model_reassigned_mid_run")
        return False

    def op_dropquote(self, op):
        self.s.qb.drop(op["asset"])
        self.ctx.event("dropquote", op["asset"])
        return False

    def op_quote(self, op):
        if self.cfg.get("int_quotes"):
            b_ = float(int(op["bid"]) + 1)
            op = dict(op, bid=b_, ask=b_ + 2.0)
        self.s.qb.set(op["asset"], op["bid"], op["ask"])
        self.ctx.event("quote", op["asset"], float(op["bid"]), float(op["ask"]))
        return False

    def _must_refuse(self, t):
        """Reference rule for broker.update(t): which clock, if any, makes the update illegal.

        A: an open position carries the time of the last successful update (its last mark or fill),
           so an earlier update must be refused by the first mark;
        B: fills are stamped with the update time, and a portfolio refuses a transaction earlier than
           its own clock, so an in-hours update earlier than the clock of a portfolio with pending
           orders must be refused before anything happens.
        Both are only reachable after the broker clock has been moved backwards.
        """
        m = self.m
        if any(pos.clock is not None and t < pos.clock for p in m.pfs.values() for pos in p.pos.values()) or \
                any(p.pos and t < p.clock for p in m.pfs.values()):
            return "clock_regress", "update(earlier than the last mark of an open position)"
        if is_open_ref(t) and any(p.pending and t < p.clock for p in m.pfs.values()):
            return "clock_regress_pending", "update(earlier than the clock of a portfolio with pending orders)"
        return None

    def _follow_broker_clock(self):
        # the broker clock is not state any property lists; after a refused or optional update the
        # model simply follows it (DESIGN section 3, rule 7)
        self.m.now = epoch(self.s.broker.current_dt)

    def op_tick(self, op):
        s, m, ctx = self.s, self.m, self.ctx
        if "back" in op:
            t = m.now - int(op["back"])
        elif "fwd" in op:
            t = m.now + int(op["fwd"])
        else:
            t = int(op["t"])
        old_now = m.now
        must = self._must_refuse(t)
        if must is not None:
            self.refused(must[0], lambda: s.broker.update(ts(t)), (ValueError,), must[1])
            self._follow_broker_clock()
            regressed = True
        elif t < m.now:
            if is_open_ref(t) and m.any_pending():
                # would legally fill at an earlier time: outside every property's domain, not issued
                ctx.probe("regress_would_fill_skipped")
                return False
            # nothing to mark, nothing to fill: no portfolio-level request is involved. Whether the
            # broker accepts the earlier time or refuses it with ValueError is not part of any
            # property; either way the listed state must not move (DESIGN section 4, C15)
            ok, exc = self.refused("clock_regress_idle", lambda: s.broker.update(ts(t)), (ValueError,),
                                   "update(earlier time) with nothing to mark or fill", optional=True)
            ctx.probe("regress_idle_accepted" if ok else "regress_idle_refused")
            self._follow_broker_clock()
            regressed = True
        else:
            return self._forward_tick(t)
        if regressed and m.now < old_now:
            if op.get("stay"):
                ctx.probe("run_continues_on_regressed_broker_clock")
            elif self._must_refuse(old_now) is None:
                self._forward_tick(old_now)   # re-synchronise the clocks with a tick at the last instant
        return True

    def _forward_tick(self, t):
        s, m, ctx = self.s, self.m, self.ctx
        open_ = is_open_ref(t)
        if t == m.now and m.last_tick == t:
            ctx.fault("dup_tick")
        if not open_:
            ctx.fault("closed_tick")
        tod = t % DAY
        if tod == OPEN_S and weekday(t) <= 4:
            ctx.probe("tick_at_1430_sharp")
        if tod == CLOSE_S and weekday(t) <= 4:
            ctx.probe("tick_at_2100_sharp")
        if tod == CLOSE_S - 1 and weekday(t) <= 4:
            ctx.probe("tick_at_205959")
        if weekday(t) > 4 and OPEN_S <= tod < CLOSE_S:
            ctx.probe("weekend_tick_in_weekday_hours")
        if open_ and any(s.qb.bid_ask(o["asset"])[0] != s.qb.bid_ask(o["asset"])[0]
                         for p in m.pfs.values() for o in p.pending):
            return self._unpriceable_tick(t)
        pend_before = {pid: list(m.pfs[pid].pending) for pid in m.order}
        if pend_before and any(pend_before.values()):
            ctx.probe("tick_with_pending_open" if open_ else "tick_with_pending_closed")
        q_before = {pid: _pending_ids(s, pid) for pid in m.order} if ctx.judging("C04") else None
        # marks happen first, for every position that exists at the start of the update
        marks = []
        for pid in m.order:
            for a, pos in m.pfs[pid].pos.items():
                marks.append((pid, a, s.qb.mid(a)))
        tstamp = ts(t)
        snap15 = snapshot(s) if ctx.judging("C15") else None
        ok, exc = self._call(s.broker.update, tstamp)
        ctx.event("tick", t, "open" if open_ else "closed", ok, len(s.captured))
        m.now = t
        m.last_tick = t
        if not ok:
            for pr in ("C04", "C01", "C02", "C05"):
                ctx.violate(pr, "valid_update_raised", {"t": iso(t), "exc": repr(exc)[:300]},
                            sig="valid_update_raised:" + type(exc).__name__)
            if snap15 is not None:
                # whatever made it raise: a request that ends in an error must not have changed anything
                changed = _snap_diff(snap15, snapshot(s))
                ctx.check("C15", not changed, "state_changed_by_request_that_raised",
                          lambda: {"t": iso(t), "exc": repr(exc)[:300], "changed": changed[:8]},
                          sig="state_changed_by_request_that_raised")
            raise StopRun()
        for pid, a, mid in marks:
            m.pfs[pid].pos[a].last = mid
            m.pfs[pid].pos[a].clock = t
        # --- what should have filled (C04) ---
        expected = {}
        for pid in m.order:
            pend = pend_before[pid]
            if open_:
                sells = [o for o in pend if o["qty"] < 0]
                buys = [o for o in pend if o["qty"] > 0]
                expected[pid] = sells + buys
                if sells and buys:
                    ctx.probe("sells_and_buys_in_one_batch")
            else:
                expected[pid] = []
        got = {pid: [] for pid in m.order}
        for c in s.captured:
            got.setdefault(c["pid"], []).append(c)
        if ctx.judging("C04"):
            for pid in m.order:
                exp = [(o["oid"], o["asset"], o["qty"]) for o in expected[pid]]
                g = [(c["oid"], c["asset"], c["qty"]) for c in got[pid]]
                if not open_:
                    ctx.check("C04", g == [], "fill_outside_exchange_hours",
                              lambda: {"t": iso(t), "weekday": weekday(t), "fills": g},
                              sig="fill_outside_exchange_hours")
                    ctx.check("C04", _pending_ids(s, pid) == q_before[pid], "queue_changed_on_closed_tick",
                              lambda: {"t": iso(t), "before": q_before[pid], "after": _pending_ids(s, pid)})
                else:
                    if g != exp:
                        if sorted(g) == sorted(exp):
                            orc = "fill_order_wrong"
                        elif [x[0] for x in g] == [x[0] for x in exp]:
                            orc = "fill_quantity_wrong"
                        elif len(g) < len(exp):
                            orc = "pending_order_not_filled_at_first_open_update"
                        else:
                            orc = "unexpected_fill"
                        ctx.violate("C04", orc, {"t": iso(t), "pid": pid, "expected": exp, "got": g},
                                    sig=orc)
                    else:
                        ctx.ok("C04")
                    ctx.check("C04", _pending_ids(s, pid) == [], "queue_not_empty_after_open_update",
                              lambda: {"t": iso(t), "after": _pending_ids(s, pid)})
                for c in got[pid]:
                    ctx.check("C04", c["dt"] == tstamp, "fill_timestamp_not_update_time",
                              lambda: {"t": iso(t), "txn_dt": str(c["dt"])})
        if ctx.judging("C04") and open_:
            # "within one update every sell is filled before any buy": across portfolios too (the
            # transactions are captured in the order in which they reached the portfolios)
            sides = [(c["pid"], c["asset"], c["qty"]) for c in s.captured if c["qty"] != 0]
            first_buy = next((i for i, x in enumerate(sides) if x[2] > 0), None)
            if sum(1 for pid in m.order if got[pid]) > 1:
                ctx.probe("fills_in_several_portfolios_in_one_update")
                if first_buy is not None and first_buy > 0:
                    ctx.probe("sells_and_buys_across_portfolios_in_one_update")
            ctx.check("C04", first_buy is None or not any(x[2] < 0 for x in sides[first_buy:]),
                      "sell_filled_after_a_buy_in_the_same_update",
                      lambda: {"t": iso(t), "fills_in_order": sides[:20]},
                      sig="sell_filled_after_a_buy_in_the_same_update")
        # --- apply the fills that actually happened to the ledger ---
        for c in s.captured:
            self._apply_fill(c, t, tstamp)
        # model queue follows the documented rule
        for pid in m.order:
            if open_:
                m.pfs[pid].pending = []
        return False

    def _unpriceable_tick(self, t):
        """In-hours update while a pending order's asset has no quote (outside C04's domain).

        The update raises part-way through the batch; which orders were filled first and what becomes
        of the rest is not specified by any property.  The fills that did happen are booked (and judged
        by C05/C01/C02 like any other), the pending model is re-synchronised from the broker's queues,
        and the run carries on -- later fills must again satisfy every property.
        """
        s, m, ctx = self.s, self.m, self.ctx
        ctx.fault("unpriceable_order")
        marks = [(pid, a, s.qb.mid(a)) for pid in m.order for a in m.pfs[pid].pos]
        tstamp = ts(t)
        ok, exc = self._call(s.broker.update, tstamp)
        ctx.event("tick_unpriceable", t, "accepted" if ok else type(exc).__name__, len(s.captured))
        m.now = t
        m.last_tick = t
        for pid, a, mid in marks:
            m.pfs[pid].pos[a].last = mid
            m.pfs[pid].pos[a].clock = t
        for c in s.captured:
            self._apply_fill(c, t, tstamp)
        for pid in m.order:
            left = set(x[0] for x in _pending_ids(s, pid))
            for o in m.pfs[pid].pending:
                if o["oid"] not in left and self.orders[o["oid"]]["fills"] == 0:
                    ctx.probe("order_dropped_by_failed_update(unspecified)")
            m.pfs[pid].pending = [o for o in m.pfs[pid].pending if o["oid"] in left]
        return False

    def _apply_fill(self, c, t, tstamp, direct=False):
        """Book one captured transaction into the ledger; judge C05 on it."""
        s, m, ctx = self.s, self.m, self.ctx
        pid, a, q = c["pid"], c["asset"], c["qty"]
        if float(q) == int(q):
            q = int(q)          # numpy integers behave, but the ledger is exact Python arithmetic
        else:
            q = frac(q)         # fractional quantities (C03 only): exact rational
        p = m.pfs[pid]
        price, comm = c["price"], c["comm"]
        o = self.orders.get(c["oid"])
        if o is not None:
            o["fills"] += 1
        if ctx.judging("C04") and not direct:
            if o is None:
                ctx.violate("C04", "fill_without_submitted_order", {"txn": [a, q, str(c["oid"])]})
            elif o["fills"] > 1:
                ctx.violate("C04", "order_filled_more_than_once", {"oid": c["oid"], "asset": a, "qty": q})
        if ctx.judging("C05") and not direct:
            bid, ask = s.qb.bid_ask(a)
            want = ask if q > 0 else bid
            ctx.check("C05", c["dt"] == tstamp, "fill_not_stamped_with_update_time",
                      lambda: {"txn_dt": str(c["dt"]), "update": iso(t)})
            ctx.check("C05", float(price) == float(want), "fill_price_wrong_side_or_stale",
                      lambda: {"asset": a, "qty": q, "price": float(price), "bid": float(bid),
                               "ask": float(ask)},
                      sig="fill_price_wrong_side_or_stale")
            x = float(want) * q
            lo, hi = math.floor(abs(x) + 0.5 - 1e-9), math.ceil(abs(x) - 0.5 + 1e-9)
            cands = set([abs(round(x)), lo, hi]) if abs(abs(x) % 1.0 - 0.5) < 1e-6 else set([abs(round(x))])
            rate = float(s.rate)
            fx = s.fixed_fee
            okc = any(close(comm, fx + rate * cn, scale=fx + rate * cn, rel=1e-9, abs_=1e-9) for cn in cands)
            ctx.check("C05", okc, "commission_not_fee_model_of_consideration",
                      lambda: {"asset": a, "qty": q, "price": float(price), "commission": float(comm),
                               "expected": [fx + rate * cn for cn in sorted(cands)], "rate": rate, "fixed": fx},
                      sig="commission_not_fee_model_of_consideration")
            ctx.check("C05", float(comm) >= 0.0, "negative_commission", lambda: {"commission": float(comm)})
            if len(cands) > 1:
                ctx.probe("consideration_at_half_tie")
        cost = frac(price) * q + frac(comm)
        p.cash -= cost
        p.flow += abs(frac(price) * q) + abs(frac(comm))
        if q > 0:
            p.rows.append(("asset_transaction", t, cost, Fraction(0), p.cash))
        else:
            p.rows.append(("asset_transaction", t, Fraction(0), -cost, p.cash))
        p.clock = max(p.clock, t)
        self.touched_cash.add(pid)
        self.filled_assets.add((pid, a))
        if p.cash < 0:
            ctx.fault("neg_cash_buy")
        pos = p.pos.get(a)
        if pos is None:
            self.epoch_counter += 1
            pos = MPos(self.epoch_counter)
            p.pos[a] = pos
            p.n_open += 1
            if p.n_open > 1:
                ctx.probe("position_reopened_or_second_asset")
        before = pos.net
        pos.net += q
        pos.last = price
        pos.clock = t
        pos.fills.append((price, q, comm))
        if before != 0 and (before > 0) != (pos.net > 0) and pos.net != 0:
            ctx.fault("flip_through_zero")
            if float(comm) > 0:
                ctx.probe("flip_through_zero_with_commission")
        # record the control path of the position accounting (C03 reach)
        if len(pos.fills) <= 4:
            path = []
            n = 0
            for (_, fq, fc) in pos.fills:
                n += fq
                path.append(("B" if fq > 0 else "S") + ("L" if n > 0 else ("S" if n < 0 else "F")))
            self.paths.add("".join(path) + ("/c" if float(s.rate) > 0 else "/0"))
        if pos.net == 0:
            del p.pos[a]
            ctx.fault("close_and_reopen")  # counted as "closed to exactly zero"
            self.prev_rp.pop((pid, a), None)

    # -- faults that bypass the broker API ---------------------------------
    def op_getter(self, op):
        s = self.s
        b = s.broker
        api = op["api"]
        if api == "get_ccy":
            self.refused("bad_currency", lambda: b.get_account_cash_balance(op["ccy"]), (ValueError,),
                         "get_account_cash_balance")
            return True
        pid = op["pid"]
        if pid in self.m.pfs:
            return False  # became valid after shrinking; nothing to do
        if api == "get_cash":
            self.refused("unknown_portfolio", lambda: b.get_portfolio_cash_balance(pid), (ValueError,),
                         "get_portfolio_cash_balance")
        elif api == "get_mv":
            self.refused("unknown_portfolio", lambda: b.get_portfolio_total_market_value(pid), (KeyError,),
                         "get_portfolio_total_market_value")
        elif api == "get_eq":
            self.refused("unknown_portfolio", lambda: b.get_portfolio_total_equity(pid), (KeyError,),
                         "get_portfolio_total_equity")
        else:
            self.refused("unknown_portfolio", lambda: b.get_portfolio_as_dict(pid), (KeyError,),
                         "get_portfolio_as_dict")
        return True

    def op_mark(self, op):
        """A legal price mark issued directly on the portfolio (C02: fills interleaved with marks)."""
        s, m, ctx = self.s, self.m, self.ctx
        pid, a = op["pid"], op["asset"]
        if pid not in m.pfs or a not in m.pfs[pid].pos:
            return False
        pc = m.pfs[pid].pos[a].clock
        if m.now < m.pfs[pid].clock or (pc is not None and m.now < pc):
            return False
        price = float(op["price"])
        if op.get("via") in ("position", "position_dt"):
            # the mark delivered to the Position object itself, its optional timestamp left out or given
            try:
                pobj = s.broker.portfolios[pid].pos_handler.positions[a]
            except Exception:
                return False
            if op["via"] == "position":
                ok, exc = self._call(pobj.update_current_price, price)
            else:
                ok, exc = self._call(pobj.update_current_price, price, ts(m.now))
            ctx.event("mark", pid, a, price, ok, op["via"])
            if not ok:
                ctx.violate("C02", "valid_mark_refused", {"op": op, "exc": repr(exc)[:200]})
                return False
            m.pfs[pid].pos[a].last = price
            if op["via"] == "position_dt":
                m.pfs[pid].pos[a].clock = m.now
            ctx.probe("price_mark_on_position_" + ("without_dt" if op["via"] == "position" else "with_dt"))
            return False
        ok, exc = self._call(s.broker.portfolios[pid].update_market_value_of_asset, a, price, ts(m.now))
        ctx.event("mark", pid, a, price, ok)
        if not ok:
            ctx.violate("C02", "valid_mark_refused", {"op": op, "exc": repr(exc)[:200]})
            return False
        m.pfs[pid].pos[a].last = price
        m.pfs[pid].pos[a].clock = m.now
        ctx.probe("direct_price_mark")
        return False

    def op_whatif(self, op):
        """A copy of a live Position traded on its own: the original (and everything else) stays as it was."""
        import copy
        import pickle
        from qstrader.broker.transaction.transaction import Transaction
        s, m, ctx = self.s, self.m, self.ctx
        pid, a = op["pid"], op["asset"]
        if pid not in m.pfs or a not in m.pfs[pid].pos:
            return False
        try:
            pobj = s.broker.portfolios[pid].pos_handler.positions[a]
        except Exception:
            return False
        how = op["how"]
        clone = (copy.copy(pobj) if how == "copy" else
                 (copy.deepcopy(pobj) if how == "deepcopy" else pickle.loads(pickle.dumps(pobj))))
        t_ = ts(max(m.now, m.pfs[pid].pos[a].clock or m.now))
        try:
            clone.transact(Transaction(a, int(op["qty"]), t_, float(op["price"]), "what-if", commission=float(op["comm"])))
            clone.update_current_price(float(op["price"]) * 1.01, t_)
        except Exception as e:
            ctx.probe("whatif_clone_raised:" + type(e).__name__)
        ctx.event("whatif", pid, a, how)
        ctx.probe("position_cloned_and_traded_" + how)
        return False

    def op_poslife(self, op):
        """A free-standing Position: fills that may take it exactly flat and on again, marks in between;
        the C03 identities are judged against the list of its fills after every step."""
        from qstrader.broker.portfolio.position import Position
        from qstrader.broker.transaction.transaction import Transaction
        m, ctx = self.m, self.ctx
        if not ctx.judging("C03"):
            return False
        a = op["asset"]
        fills, net, pos, was_flat = [], Fraction(0), None, False

        def judge(what):
            tp, rp, up, mv = (float(pos.total_pnl), float(pos.realised_pnl), float(pos.unrealised_pnl),
                              float(pos.market_value))
            scale = float(sum(abs(fp * fq) + abs(fc) for fp, fq, fc in fills)) + abs(mv)
            det = lambda: {"asset": a, "after": what, "total": tp, "realised": rp, "unrealised": up,   # noqa: E731
                           "market_value": mv, "fills": [(float(fp), float(fq), float(fc)) for fp, fq, fc in fills]}
            if not ctx.check("C03", frac(pos.net_quantity) == net, "net_quantity_not_sum_of_fills", det,
                             sig="net_quantity_not_sum_of_fills"):
                return False
            if not ctx.check("C03", close(tp, rp + up, scale=scale, rel=1e-12),
                             "total_pnl_not_realised_plus_unrealised", det):
                return False
            want = frac(mv) - sum(fp * fq for fp, fq, fc in fills) - sum(fc for fp, fq, fc in fills)
            if not ctx.check("C03", close(tp, want, scale=scale), "total_pnl_not_market_value_minus_cash_flows",
                             det, sig="total_pnl_not_market_value_minus_cash_flows"):
                return False
            if net != 0:
                sgn = 1 if net > 0 else -1
                side = [(fp, abs(fq), fc) for fp, fq, fc in fills if fq * sgn > 0]
                qs = sum(fq for fp, fq, fc in side)
                avg = (sum(fp * fq for fp, fq, fc in side) + sgn * sum(fc for fp, fq, fc in side)) / qs
                want_un = (frac(mv) / net - avg) * net
                if not ctx.check("C03", close(up, want_un, scale=scale),
                                 "unrealised_pnl_not_price_minus_avg_cost_times_net", det,
                                 sig="unrealised_pnl_not_price_minus_avg_cost_times_net"):
                    return False
            return True

        for j, st in enumerate(op["steps"]):
            t_ = ts(m.now + j)
            txn = Transaction(a, st["q"], t_, float(st["p"]), "life-%d" % j, commission=float(st["c"]))
            if pos is None:
                try:
                    pos = Position.open_from_transaction(txn)
                    ok, exc = True, None
                except Exception as e:
                    from qsim.core import raised_in_repo as _rir
                    if not _rir(e):
                        raise
                    ok, exc = False, e
            else:
                ok, exc = self._call(pos.transact, txn)
            if not ok:
                ctx.violate("C03", "valid_fill_raised", {"asset": a, "step": j, "exc": repr(exc)[:300]},
                            sig="valid_fill_raised:" + type(exc).__name__)
                return False
            fills.append((frac(float(st["p"])), frac(st["q"]), frac(float(st["c"]))))
            if was_flat:
                ctx.probe("position_traded_again_after_exactly_flat")
            net += frac(st["q"])
            was_flat = (net == 0)
            if was_flat:
                ctx.probe("standalone_position_exactly_flat")
            if not judge("fill %d" % j):
                return False
            if st["mark"] is not None:
                before = (fhex(pos.realised_pnl), fhex(pos.net_quantity))
                ok, exc = self._call(pos.update_current_price, float(st["mark"]), t_)
                if not ok:
                    ctx.violate("C03", "valid_mark_raised", {"asset": a, "step": j, "exc": repr(exc)[:300]},
                                sig="valid_mark_raised:" + type(exc).__name__)
                    return False
                after = (fhex(pos.realised_pnl), fhex(pos.net_quantity))
                if not ctx.check("C03", before == after, "realised_pnl_or_quantity_changed_without_fill",
                                 lambda: {"asset": a, "before": before, "after": after, "mark": st["mark"]},
                                 sig="realised_pnl_or_quantity_changed_without_fill"):
                    return False
                if not judge("mark %d" % j):
                    return False
        ctx.event("poslife", a, len(fills), fhex(pos.total_pnl))
        return False

    def op_pftxn(self, op):
        """A legal transaction booked directly on the portfolio: arbitrary price and commission, order id
        possibly shared with the previous fill (one order worked in several clips at one instant)."""
        from qstrader.broker.transaction.transaction import Transaction
        s, m, ctx = self.s, self.m, self.ctx
        pid, a = op["pid"], op["asset"]
        if pid not in m.pfs:
            return False
        p = m.pfs[pid]
        if m.now < p.clock or (a in p.pos and p.pos[a].clock is not None and m.now < p.pos[a].clock):
            return False
        if float(op["price"]) == 0.0 and a in p.pos:
            return False        # a nil-cost fill can only open a position (re-marking at 0 is refused by design)
        oid = "direct-%s" % (op["oid"],)
        when = m.now + int(op.get("ahead", 0))
        tstamp = ts(when)
        if op.get("ahead"):
            ctx.fault("transaction_stamped_ahead_of_broker_clock")
        qv = op["qty"]
        qv = int(qv) if float(qv) == int(qv) else float(qv)
        price_ = float(op["price"])
        if self.cfg.get("big_int_prices") and price_ > 0 and float(qv) == int(qv):
            # an integer-tick venue quoting in a tiny currency unit: prices as (large) Python ints - exact in Python,
            # past 2**63 in any fixed-width integer arithmetic once multiplied by a quantity
            # sized so that one fill is worth 4e18..6e18 currency units: below 2**63 alone, above it in pairs
            price_ = max(1, int((4e18 + (price_ * 7919.0 % 2.0) * 1e18) // max(1, abs(int(qv)))))
            ctx.probe("direct_transaction_with_large_python_int_price")
        txn = Transaction(a, qv, tstamp, price_, oid, commission=float(op["comm"]))
        ok, exc = self._call(s.broker.portfolios[pid].transact_asset, txn)
        ctx.event("pftxn", pid, a, op["qty"], float(op["price"]), float(op["comm"]), ok)
        if not ok:
            for pr in ("C01", "C02", "C03"):
                ctx.violate(pr, "valid_transaction_refused", {"op": op, "exc": repr(exc)[:200]})
            raise StopRun()
        for c in s.captured:
            if c["oid"] == oid and not c.get("booked"):
                c["booked"] = True
                self._apply_fill(c, when, tstamp, direct=True)
        ctx.probe("direct_transaction")
        if op.get("same_oid"):
            ctx.probe("direct_transaction_repeating_order_id_and_time")
        return False

    def op_broker2(self, op):
        """A second, independent broker is created and used: nothing of the first may move (aliasing)."""
        from qstrader.broker.simulated_broker import SimulatedBroker
        from qstrader.execution.order import Order
        s, m, ctx = self.s, self.m, self.ctx
        before = snapshot(s)
        try:
            from qstrader.broker.fee_model.percent_fee_model import PercentFeeModel
            b2 = SimulatedBroker(ts(m.now), s.exchange, s.qb, account_id="other", base_currency=s.ccy,
                                 initial_funds=op["funds"], fee_model=PercentFeeModel(commission_pct=0.013, tax_pct=0.007))
            b2.create_portfolio(op["pid"], "other")
            b2.subscribe_funds_to_portfolio(op["pid"], op["funds"] / 2.0)
            b2.submit_order(op["pid"], Order(ts(m.now), op["asset"], op["qty"]))
            b2.update(ts(m.now))
            b2.withdraw_funds_from_account(op["funds"] / 4.0)
        except Exception as e:
            ctx.probe("second_broker_raised:" + type(e).__name__)
        ctx.event("broker2")
        ctx.probe("second_broker_instance_used")
        after = snapshot(s)
        if after != before:
            diff = _snap_diff(before, after)
            kinds = set(d.split(":")[0] for d in diff)
            if kinds & set(["master", "cash", "hist"]):
                ctx.violate("C01", "cash_changed_by_another_broker_instance", {"changed": diff},
                            sig="cash_changed_by_another_broker_instance")
            if "pos" in kinds:
                ctx.violate("C02", "holdings_changed_by_another_broker_instance", {"changed": diff})
            if "pend" in kinds:
                ctx.violate("C04", "pending_orders_changed_by_another_broker_instance", {"changed": diff})
            raise StopRun()
        return False

    def op_ctor(self, op):
        from qstrader.broker.simulated_broker import SimulatedBroker
        s = self.s
        t0 = ts(self.m.now)
        what = op["what"]
        if what == "currency":
            self.refused("bad_currency",
                         lambda: SimulatedBroker(t0, s.exchange, s.qb, base_currency=op["val"]),
                         (ValueError,), "SimulatedBroker(base_currency)")
        elif what == "funds":
            self.refused("neg_initial_funds",
                         lambda: SimulatedBroker(t0, s.exchange, s.qb, initial_funds=op["val"]),
                         (ValueError,), "SimulatedBroker(initial_funds)")
        else:
            val = {"str": "ZeroFeeModel", "none": None, "obj": object()}.get(op["val"], None)
            if op["val"] == "class":
                from qstrader.broker.fee_model.zero_fee_model import ZeroFeeModel
                val = ZeroFeeModel  # the class, not an instance
            self.refused("bad_fee_model",
                         lambda: SimulatedBroker(t0, s.exchange, s.qb, fee_model=val),
                         (TypeError,), "SimulatedBroker(fee_model)")
        return True

    def op_pfdirect(self, op):
        """Portfolio-level requests the property anchors: time, sign and balance checks."""
        from qstrader.broker.transaction.transaction import Transaction
        s, m, ctx = self.s, self.m, self.ctx
        pid = op["pid"]
        if pid not in m.pfs:
            return False
        p = m.pfs[pid]
        pf = s.broker.portfolios[pid]
        api = op["api"]
        asset = op["asset"]
        if api in ("sub", "wd", "txn", "mark"):
            early = ts(p.clock - int(op["back"]))
            if int(op["back"]) <= 0:
                return False
            amt = op["amt"]
            if api == "sub":
                self.refused("pf_early_dt", lambda: pf.subscribe_funds(early, amt), (ValueError,),
                             "Portfolio.subscribe_funds(early)")
            elif api == "wd":
                self.refused("pf_early_dt", lambda: pf.withdraw_funds(early, abs(amt)), (ValueError,),
                             "Portfolio.withdraw_funds(early)")
            elif api == "txn":
                b_, a_ = s.qb.bid_ask(asset)
                txn = Transaction(asset, 10, early, float(a_), "x-early", commission=0.0)
                self.refused("pf_early_dt", lambda: pf.transact_asset(txn), (ValueError,),
                             "Portfolio.transact_asset(early)")
                # the wrapper saw this transaction; it must not be booked
                s.captured = [c for c in s.captured if c["oid"] != "x-early"]
            else:
                if asset not in p.pos:
                    ctx.probe("early_mark_on_unheld_asset_skipped")
                    return False
                self.refused("pf_early_dt",
                             lambda: pf.update_market_value_of_asset(asset, float(s.qb.mid(asset)), early),
                             (ValueError,), "Portfolio.update_market_value_of_asset(early)")
            return True
        now = ts(m.now)
        if m.now < p.clock:
            return False
        if api == "sub_neg":
            self.refused("pf_direct_bad_amount", lambda: pf.subscribe_funds(now, -abs(op["amt"])),
                         (ValueError,), "Portfolio.subscribe_funds(negative)")
            p.clock = max(p.clock, m.now)
            ctx.probe("refused_portfolio_request_may_advance_clock")
            return True
        if api == "wd_neg":
            self.refused("pf_direct_bad_amount", lambda: pf.withdraw_funds(now, -abs(op["amt"])),
                         (ValueError,), "Portfolio.withdraw_funds(negative)")
            p.clock = max(p.clock, m.now)
            return True
        if api == "wd_over":
            bal = float(pf.cash)
            amt = (bal if bal > 0 else 0.0) + abs(op["amt"])
            if not amt > bal:
                amt = math.nextafter(bal, math.inf)      # balances so large that adding a little changes nothing
            self.refused("pf_direct_bad_amount", lambda: pf.withdraw_funds(now, amt),
                         (ValueError,), "Portfolio.withdraw_funds(over balance)")
            p.clock = max(p.clock, m.now)
            return True
        if api == "mark_bad":
            if asset not in p.pos:
                ctx.probe("bad_mark_on_unheld_asset_skipped")
                return False
            kind = "neg_mark" if op["amt"] < 0 else "zero_mark"
            # the mark must not be earlier than the position's own clock either
            self.refused(kind, lambda: pf.update_market_value_of_asset(asset, float(op["amt"]), now),
                         (ValueError,), "Portfolio.update_market_value_of_asset(%s)" % kind)
            return True
        raise AssertionError(api)

    # -- oracles evaluated after every operation ---------------------------
    def after_op(self, op):
        ctx = self.ctx
        if ctx.judging("C01"):
            self.judge_c01(op)
        if ctx.judging("C02"):
            self.judge_c02(op)
        if ctx.judging("C03"):
            self.judge_c03(op)

    def judge_c01(self, op):
        s, m, ctx = self.s, self.m, self.ctx
        b = s.broker
        step = ctx.step
        # master and other currencies
        try:
            bal = b.get_account_cash_balance(s.ccy)
            allb = dict(b.get_account_cash_balance())
        except Exception as e:
            from qsim.core import raised_in_repo as _rir
            if not _rir(e):
                raise          # a bug of the harness: exit 2, never a verdict
            ctx.violate("C01", "cash_getter_raised", {"exc": repr(e)[:200]})
            return
        if not ctx.check("C01", close(bal, m.master, scale=m.master_flow), "master_cash_mismatch",
                         lambda: {"impl": float(bal), "model": float(m.master), "after": op},
                         sig="master_cash_mismatch"):
            return
        for ccy, v in allb.items():
            if ccy != s.ccy:
                ctx.check("C01", float(v) == 0.0, "foreign_currency_balance_moved",
                          lambda: {"ccy": ccy, "value": float(v)})
        hx = fhex(bal)
        if "__master__" not in self.touched_cash and "__master__" in self.prev_cash:
            ctx.check("C01", hx == self.prev_cash["__master__"], "master_cash_changed_without_cash_movement",
                      lambda: {"before": self.prev_cash["__master__"], "after": hx, "op": op},
                      sig="master_cash_changed_without_cash_movement")
        self.prev_cash["__master__"] = hx
        # portfolios
        for pid in m.order:
            p = m.pfs[pid]
            try:
                c = b.get_portfolio_cash_balance(pid)
            except Exception as e:
                from qsim.core import raised_in_repo as _rir
                if not _rir(e):
                    raise          # a bug of the harness: exit 2, never a verdict
                ctx.violate("C01", "cash_getter_raised", {"exc": repr(e)[:200]})
                return
            if not ctx.check("C01", close(c, p.cash, scale=p.flow), "portfolio_cash_mismatch",
                             lambda: {"pid": pid, "impl": float(c), "model": float(p.cash), "after": op,
                                      "fills": [(x["asset"], x["qty"], float(x["price"]), float(x["comm"]))
                                                for x in s.captured]},
                             sig="portfolio_cash_mismatch"):
                return
            hx = fhex(c)
            if pid not in self.touched_cash and pid in self.prev_cash:
                ctx.check("C01", hx == self.prev_cash[pid], "portfolio_cash_changed_without_cash_movement",
                          lambda: {"pid": pid, "before": self.prev_cash[pid], "after": hx, "op": op},
                          sig="portfolio_cash_changed_without_cash_movement")
            self.prev_cash[pid] = hx
        # account-level totals: always obtainable, equal the per-portfolio figures
        for name, getter, per in (
                ("total_equity", "get_account_total_equity", "get_portfolio_total_equity"),
                ("total_market_value", "get_account_total_market_value", "get_portfolio_total_market_value")):
            try:
                tot = getattr(b, getter)()
            except Exception as e:
                from qsim.core import raised_in_repo as _rir
                if not _rir(e):
                    raise          # a bug of the harness: exit 2, never a verdict
                ctx.violate("C01", "account_%s_not_obtainable" % name,
                            {"exc": repr(e)[:300], "portfolios": list(m.order)},
                            sig="account_%s_not_obtainable:%s" % (name, type(e).__name__))
                return
            keys = set(tot.keys())
            if not ctx.check("C01", keys == set(m.order) | set(["master"]), "account_%s_keys" % name,
                             lambda: {"keys": sorted(keys), "expected": sorted(m.order) + ["master"]}):
                return
            ssum = 0.0
            scale = 0.0
            good = True
            for pid in m.order:
                v = getattr(b, per)(pid)
                if pid != "master":
                    # (a portfolio that is itself called "master" shares its key with the account total; the
                    # property speaks about the total, which is judged below)
                    good = good and (fhex(tot[pid]) == fhex(v))
                ssum += float(v)
                scale += abs(float(v))
            ctx.check("C01", good, "account_%s_differs_from_portfolio_getter" % name,
                      lambda: {"account": dict((k, float(v)) for k, v in tot.items())})
            ctx.check("C01", close(tot["master"], ssum, scale=scale), "account_%s_master_not_sum" % name,
                      lambda: {"master": float(tot["master"]), "sum": ssum})
        # history: one row per cash movement, same order, type, time; amounts to the cent
        for pid in m.order:
            p = m.pfs[pid]
            hist = b.portfolios[pid].history
            if not ctx.check("C01", len(hist) == len(p.rows), "history_row_count",
                             lambda: {"pid": pid, "impl": len(hist), "model": len(p.rows), "after": op,
                                      "impl_tail": [repr(e) for e in hist[-3:]]},
                             sig="history_row_count"):
                return
            # judge only the rows appended by this op, plus a rolling re-check of an older row
            start = getattr(p, "_judged_rows", 0)
            idxs = list(range(start, len(hist)))
            if start > 0:
                idxs.append((step * 7919) % start)
            for i in idxs:
                e = hist[i]
                typ, sec, deb, cre, balx = p.rows[i]
                good = (e.type == typ and e.dt == ts(sec)
                        and cents_ok(e.debit, deb, p.flow) and cents_ok(e.credit, cre, p.flow)
                        and cents_ok(e.balance, balx, p.flow))
                if not ctx.check("C01", good, "history_row_mismatch",
                                 lambda: {"pid": pid, "row": i, "impl": repr(e),
                                          "model": [typ, iso(sec), float(deb), float(cre), float(balx)]},
                                 sig="history_row_mismatch:" + typ):
                    return
            p._judged_rows = len(hist)
        if op is None or step % 16 == 0:
            self.judge_history_df()

    def judge_history_df(self):
        s, m, ctx = self.s, self.m, self.ctx
        for pid in m.order:
            p = m.pfs[pid]
            if not ctx.judging("C01"):
                return
            try:
                df = s.broker.portfolios[pid].history_to_df()
            except Exception as e:
                from qsim.core import raised_in_repo as _rir
                if not _rir(e):
                    raise          # a bug of the harness: exit 2, never a verdict
                ctx.violate("C01", "history_to_df_raised", {"exc": repr(e)[:200]})
                return
            if not ctx.check("C01", len(df) == len(p.rows), "history_df_row_count",
                             lambda: {"pid": pid, "df": len(df), "model": len(p.rows)}):
                return
            if len(df) == 0:
                continue
            good = True
            bad = None
            types = list(df["type"])
            debs = list(df["debit"])
            cres = list(df["credit"])
            bals = list(df["balance"])
            for i, (typ, sec, deb, cre, balx) in enumerate(p.rows):
                if not (types[i] == typ and cents_ok(debs[i], deb, p.flow)
                        and cents_ok(cres[i], cre, p.flow) and cents_ok(bals[i], balx, p.flow)):
                    good = False
                    bad = i
                    break
            ctx.check("C01", good, "history_df_row_mismatch", lambda: {"pid": pid, "row": bad})

    def judge_c02(self, op):
        s, m, ctx = self.s, self.m, self.ctx
        b = s.broker
        for pid in m.order:
            p = m.pfs[pid]
            try:
                d = b.get_portfolio_as_dict(pid)
                tmv = b.get_portfolio_total_market_value(pid)
                teq = b.get_portfolio_total_equity(pid)
                cash = b.get_portfolio_cash_balance(pid)
            except Exception as e:
                from qsim.core import raised_in_repo as _rir
                if not _rir(e):
                    raise          # a bug of the harness: exit 2, never a verdict
                ctx.violate("C02", "holdings_getter_raised", {"exc": repr(e)[:200]})
                return
            if not ctx.check("C02", set(d.keys()) == set(p.pos.keys()), "holdings_report_asset_set",
                             lambda: {"pid": pid, "impl": sorted(d.keys()), "model": sorted(p.pos.keys()),
                                      "after": op},
                             sig="holdings_report_asset_set"):
                return
            sum_mv = 0.0
            scale = 0.0
            for a, pos in p.pos.items():
                q = d[a]["quantity"]
                if not ctx.check("C02", q == pos.net, "quantity_not_net_of_fills",
                                 lambda: {"pid": pid, "asset": a, "impl": float(q), "model": pos.net},
                                 sig="quantity_not_net_of_fills"):
                    return
                want = float(pos.last) * pos.net
                if not ctx.check("C02", close(d[a]["market_value"], want, scale=abs(want), rel=1e-12),
                                 "market_value_not_qty_times_latest_price",
                                 lambda: {"pid": pid, "asset": a, "impl": float(d[a]["market_value"]),
                                          "qty": pos.net, "latest_price_seen": float(pos.last), "after": op},
                                 sig="market_value_not_qty_times_latest_price"):
                    return
                sum_mv += want
                scale += abs(want)
            if not ctx.check("C02", close(tmv, sum_mv, scale=scale, rel=1e-12), "total_market_value_not_sum",
                             lambda: {"pid": pid, "impl": float(tmv), "model": sum_mv}):
                return
            ctx.check("C02", close(teq, float(cash) + float(tmv), scale=abs(float(cash)) + scale, rel=1e-12),
                      "total_equity_not_cash_plus_market_value",
                      lambda: {"pid": pid, "equity": float(teq), "cash": float(cash), "mv": float(tmv)})

    def judge_c03(self, op):
        s, m, ctx = self.s, self.m, self.ctx
        b = s.broker
        for pid in m.order:
            p = m.pfs[pid]
            try:
                d = b.get_portfolio_as_dict(pid)
            except Exception as e:
                from qsim.core import raised_in_repo as _rir
                if not _rir(e):
                    raise          # a bug of the harness: exit 2, never a verdict
                ctx.violate("C03", "holdings_getter_raised", {"exc": repr(e)[:200]})
                return
            sums = {"realised_pnl": 0.0, "unrealised_pnl": 0.0, "total_pnl": 0.0}
            sscale = 0.0
            for a, pos in p.pos.items():
                if a not in d:
                    ctx.probe("c03_position_missing_in_report")  # C02's business
                    continue
                r = d[a]
                rp, up, tp, mv = (float(r["realised_pnl"]), float(r["unrealised_pnl"]),
                                  float(r["total_pnl"]), float(r["market_value"]))
                if mv != mv:
                    ctx.probe("c03_out_of_domain_nan")
                    sums["total_pnl"] = float("nan")   # the portfolio totals are out of domain too
                    sums["realised_pnl"] = float("nan")
                    sums["unrealised_pnl"] = float("nan")
                    continue
                gross = sum(abs(fp * fq) for fp, fq, fc in pos.fills)
                comm = sum(frac(fc) for fp, fq, fc in pos.fills)
                scale = float(gross) + float(comm) + abs(mv)
                sscale += scale
                if not ctx.check("C03", close(tp, rp + up, scale=scale, rel=1e-12),
                                 "total_pnl_not_realised_plus_unrealised",
                                 lambda: {"pid": pid, "asset": a, "total": tp, "realised": rp, "unrealised": up}):
                    return
                flows = sum(frac(fp) * fq for fp, fq, fc in pos.fills)
                want_total = frac(mv) - flows - comm
                if not ctx.check("C03", close(tp, want_total, scale=scale),
                                 "total_pnl_not_market_value_minus_cash_flows",
                                 lambda: {"pid": pid, "asset": a, "impl_total": tp,
                                          "expected": float(want_total), "market_value": mv,
                                          "fills": [(float(fp), fq, float(fc)) for fp, fq, fc in pos.fills]},
                                 sig="total_pnl_not_market_value_minus_cash_flows"):
                    return
                net = pos.net
                P = frac(mv) / net
                if net > 0:
                    side = [(fp, fq, fc) for fp, fq, fc in pos.fills if fq > 0]
                    qs = sum(fq for fp, fq, fc in side)
                    avg = (sum(frac(fp) * fq for fp, fq, fc in side) + sum(frac(fc) for fp, fq, fc in side)) / qs
                else:
                    side = [(fp, -fq, fc) for fp, fq, fc in pos.fills if fq < 0]
                    qs = sum(fq for fp, fq, fc in side)
                    avg = (sum(frac(fp) * fq for fp, fq, fc in side) - sum(frac(fc) for fp, fq, fc in side)) / qs
                want_un = (P - avg) * net
                if not ctx.check("C03", close(up, want_un, scale=scale),
                                 "unrealised_pnl_not_price_minus_avg_cost_times_net",
                                 lambda: {"pid": pid, "asset": a, "impl": up, "expected": float(want_un),
                                          "price": float(P), "avg_cost": float(avg), "net": net,
                                          "fills": [(float(fp), fq, float(fc)) for fp, fq, fc in pos.fills]},
                                 sig="unrealised_pnl_not_price_minus_avg_cost_times_net"):
                    return
                # re-marking changes unrealised P&L only
                key = (pid, a)
                cur = (pos.epoch_id, fhex(r["realised_pnl"]), fhex(r["quantity"]))
                prev = self.prev_rp.get(key)
                if prev is not None and prev[0] == pos.epoch_id and (pid, a) not in self.filled_assets:
                    if op is not None and op["k"] in ("tick", "quote"):
                        ctx.probe("remark_without_fill_judged")
                    if not ctx.check("C03", prev == cur, "realised_pnl_or_quantity_changed_without_fill",
                                     lambda: {"pid": pid, "asset": a, "before": prev, "after": cur, "op": op},
                                     sig="realised_pnl_or_quantity_changed_without_fill"):
                        return
                self.prev_rp[key] = cur
                sums["realised_pnl"] += rp
                sums["unrealised_pnl"] += up
                sums["total_pnl"] += tp
            pf = b.portfolios[pid]
            try:
                tot = {"realised_pnl": float(pf.total_realised_pnl),
                       "unrealised_pnl": float(pf.total_unrealised_pnl),
                       "total_pnl": float(pf.total_pnl)}
            except Exception as e:
                from qsim.core import raised_in_repo as _rir
                if not _rir(e):
                    raise          # a bug of the harness: exit 2, never a verdict
                ctx.violate("C03", "portfolio_pnl_totals_raised", {"exc": repr(e)[:200]})
                return
            for k2 in sums:
                if sums[k2] != sums[k2]:
                    continue
                if not ctx.check("C03", close(tot[k2], sums[k2], scale=sscale, rel=1e-12),
                                 "portfolio_%s_not_sum_of_positions" % k2,
                                 lambda: {"pid": pid, "impl": tot[k2], "sum": sums[k2]}):
                    return

    def final(self):
        ctx, m, s = self.ctx, self.m, self.s
        ctx.step = len(self.plan["ops"])
        if ctx.judging("C01"):
            self.judge_history_df()
        if ctx.judging("C04"):
            # over the whole run: no order filled twice; anything still pending was never offered
            # an in-hours update after its submission
            for pid in m.order:
                q = [x[0] for x in _pending_ids(s, pid)]
                exp = [o["oid"] for o in m.pfs[pid].pending]
                ctx.check("C04", q == exp, "pending_queue_differs_at_end",
                          lambda: {"pid": pid, "impl": q, "model": exp})
            for oid, o in self.orders.items():
                ctx.check("C04", o["fills"] <= 1, "order_filled_more_than_once", lambda: {"oid": oid})
        for pth in self.paths:
            ctx.probes["c03path:" + pth] += 1


def execute(plan, focus, trace=False):
    from ..core import apply_host_state
    apply_host_state(plan)
    ctx = Ctx(focus, trace=trace)
    if plan["cfg"].get("print_events"):
        # run with settings.PRINT_EVENTS = True (the shipped default); the console output goes nowhere
        import io
        import sys
        from qstrader import settings
        real_out = sys.stdout
        sys.stdout = io.StringIO()
        settings.PRINT_EVENTS = True
        try:
            Exec(_with_symbol_objects(plan, ctx), ctx).run()
        finally:
            settings.PRINT_EVENTS = False
            sys.stdout = real_out
        ctx.probe("run_with_print_events_on")
        return ctx
    ex = Exec(_with_symbol_objects(plan, ctx), ctx)
    ex.run()
    return ctx


def _with_symbol_objects(plan, ctx):
    """Asset symbols handed over as str SUBCLASSES: members of a str-mixin Enum (equal to and hashing like their
    value, but str() of them is 'Sym.A0') or numpy.str_ objects.  The plan itself stays plain JSON."""
    mode = plan["cfg"].get("sym_mode")
    if not mode:
        return plan
    import copy
    plan = copy.deepcopy(plan)
    cfg = plan["cfg"]
    names = sorted(set(cfg["assets"]) | set(op["asset"] for op in plan["ops"] if "asset" in op))
    if mode == "enum":
        from enum import Enum
        Sym = Enum("Sym", dict(("A%d" % i, a) for i, a in enumerate(names)), type=str, module=__name__)
        globals()["Sym"] = Sym          # picklable by reference, like an Enum defined in a user's module
        obj = dict((a, Sym(a)) for a in names)
    else:
        import numpy as np
        obj = dict((a, np.str_(a)) for a in names)
    cfg["assets"] = [obj[a] for a in cfg["assets"]]
    cfg["quotes0"] = dict((obj[a], q) for a, q in cfg["quotes0"].items())
    for op in plan["ops"]:
        if "asset" in op:
            op["asset"] = obj[op["asset"]]
    ctx.probe("symbols_are_str_subclass_" + mode)
    return plan


# ---------------------------------------------------------------------------
# shrinking support
# ---------------------------------------------------------------------------

def simplifications(plan):
    """Yield simpler variants of a failing plan (argument simplification after ddmin)."""
    import copy
    cfg = plan["cfg"]
    if cfg["fee"]["kind"] != "zero":
        p = copy.deepcopy(plan)
        p["cfg"]["fee"] = {"kind": "zero"}
        yield p
        if cfg["fee"] != {"kind": "pct", "c": 0.01, "t": 0.0}:
            p = copy.deepcopy(plan)
            p["cfg"]["fee"] = {"kind": "pct", "c": 0.01, "t": 0.0}
            yield p
    if cfg.get("np_quotes"):
        p = copy.deepcopy(plan)
        p["cfg"]["np_quotes"] = False
        yield p
    if cfg.get("print_events"):
        p = copy.deepcopy(plan)
        p["cfg"]["print_events"] = False
        yield p
    if cfg["initial_funds"] not in (0.0, 1e6):
        p = copy.deepcopy(plan)
        p["cfg"]["initial_funds"] = 1e6
        yield p
    for i, op in enumerate(plan["ops"]):
        if op["k"] in ("asub", "psub") and "v" in op.get("amt", {}) and op["amt"]["v"] not in (1e5, 1e6) \
                and op["amt"]["v"] > 0:
            p = copy.deepcopy(plan)
            p["ops"][i]["amt"] = {"v": 1e5 if op["k"] == "psub" else 1e6}
            yield p
        if op["k"] == "order" and "v" in op["qty"] and abs(op["qty"]["v"]) not in (1, 10, 100):
            for q in (100, 10):
                p = copy.deepcopy(plan)
                p["ops"][i]["qty"] = {"v": q if op["qty"]["v"] > 0 else -q}
                yield p
        if op["k"] == "quote" and (op["bid"], op["ask"]) != (10.0, 10.5):
            p = copy.deepcopy(plan)
            p["ops"][i]["bid"], p["ops"][i]["ask"] = 10.0, 10.5
            yield p
    for a, (b, k) in sorted(cfg["quotes0"].items()):
        if (b, k) != (10.0, 10.5):
            p = copy.deepcopy(plan)
            p["cfg"]["quotes0"][a] = [10.0, 10.5]
            yield p

"""PAIR world (C07): two full backtests whose market data agree up to and including a cut day T and
differ arbitrarily afterwards (rewritten, emptied, extended or removed).  Everything dated <= T must
be bit-for-bit identical; a failure at or before T must be identical in both worlds.

Real code: the whole session stack (see sessionlib).  Fault kinds: future_rewrite {scale, new path,
constant, NaN cells, extra rows}, future_remove {rows, whole file}.
"""
import copy
import math
import zlib

from ..core import Ctx, StopRun, fhex, iso, DAY, OPEN_S, CLOSE_S
from .. import calendar_ref as cal
from .. import sessionlib as sl
from .. import market as mk

NAME = "pair"
ISOLATE = "fork"
PROPS = ("C07",)
CHUNK = {"quick": 4, "thorough": 4}
RULE = ("(future-rewrite kind, position of the cut day relative to the rebalances: before first / on a rebalance "
        "day / day after / between / after last, alpha kind, universe kind, sizing mode, whether an asset has no "
        "row up to the cut, how world A ended)")

REWRITES = ("scale", "new_path", "constant", "nan_cells", "extra_rows", "remove_rows", "remove_file", "zero_bars")


def rewrite_future(rng, market, T, kind):
    """World B: rows dated <= T untouched (same objects, same order); rows after T rewritten."""
    mb = {"adjust": market["adjust"], "assets": {}, "applied": market.get("applied", {})}
    for sym, a in market["assets"].items():
        past = [list(r) for r in a["rows"] if r[0] <= T]
        fut = [list(r) for r in a["rows"] if r[0] > T]
        k = kind
        if k == "remove_file" and past:
            k = "remove_rows"
        if k == "scale":
            # from a mild drift to a collapse / explosion of the whole price scale (whole-sample statistics move)
            f = rng.choice([0.1, 0.5, 2.0, 10.0, 1e-4, 1e-3, 1e3, 1e5])
            for r in fut:
                for i in (1, 2, 3, 4, 5):
                    if r[i] is not None:
                        r[i] = max(mk.r4(r[i] * f), 0.0001)
        elif k == "new_path":
            p = rng.uniform(1.0, 500.0)
            for r in fut:
                o = mk.r4(p * math.exp(rng.gauss(0, 0.05)))
                c = mk.r4(o * math.exp(rng.gauss(0, 0.05)))
                r[1], r[2], r[3], r[4], r[5] = o, max(o, c), min(o, c), c, mk.r4(c * rng.choice([1.0, 0.9]))
                p = c
        elif k == "constant":
            for r in fut:
                r[1] = r[2] = r[3] = r[4] = r[5] = 7.0
        elif k == "zero_bars":
            # no-trade days written as bars of zeros
            for r in fut:
                if rng.random() < 0.4:
                    r[1] = r[2] = r[3] = r[4] = r[5] = 0.0
        elif k == "nan_cells":
            for r in fut:
                if rng.random() < 0.6:
                    r[1] = None
                if rng.random() < 0.6:
                    r[4] = None
                    r[5] = None
        elif k == "extra_rows":
            last = max([r[0] for r in a["rows"]] + [T])
            d = last + 1
            for _ in range(rng.randrange(1, 15)):
                while not cal.is_bday(d):
                    d += 1
                c = mk.r4(rng.uniform(1.0, 900.0))
                fut.append([d, c, c, c, c, c, 1000])
                d += 1
            for r in fut:
                if r[0] <= last and rng.random() < 0.5:
                    r[1] = mk.r4((r[1] or 5.0) * 1.5)
        elif k == "remove_rows":
            fut = []
        elif k == "remove_file":
            mb["assets"][sym] = {"rows": [], "removed": True}
            continue
        rows = past + fut
        # keep the original relative order of the past rows; future rows may be anywhere after them
        if not rows:
            mb["assets"][sym] = {"rows": [], "removed": True}
        else:
            mb["assets"][sym] = {"rows": rows}
    return mb


def generate(rng, focus, tier="quick"):
    cfg, market = sl.gen_config(rng, "C07", tier)
    start, end = cfg["start"], cfg["end"]
    sched = cal.schedule(cfg["rebalance"], start, end, wd=cfg.get("weekday"))
    d0, d1 = start // DAY, end // DAY
    r = rng.random()
    if r < 0.45 and sched:
        T = rng.choice(sched) // DAY + rng.choice([-1, 0, 0, 1])
    elif r < 0.55:
        T = d0 + rng.choice([-1, 0, 1])
    elif r < 0.65:
        T = d1 - rng.choice([0, 1, 2])
    else:
        T = rng.randrange(d0, d1 + 1)
    # bias: when the file carries weekend-dated bars, cut on the Friday just before one of them, and let that Friday
    # be a day without a bar (or with an empty open) for the asset - the weekend bar is then the next thing on file
    wk = [(sym, r[0]) for sym, a in sorted(market["assets"].items()) for r in a["rows"]
          if cal.day_weekday(r[0]) > 4 and d0 < r[0] <= d1]
    if wk and rng.random() < 0.5:
        sym, wd_ = rng.choice(wk)
        fri = wd_ - (1 if cal.day_weekday(wd_) == 5 else 2)
        T = fri
        rows = market["assets"][sym]["rows"]
        if rng.random() < 0.7:
            rows[:] = [r for r in rows if r[0] != fri] or rows
        else:
            for r in rows:
                if r[0] == fri:
                    r[1] = None
    kind = rng.choice(REWRITES)
    mb = rewrite_future(rng, market, T, kind)
    plan = {"world": NAME, "cfg": cfg, "market": market, "market_b": mb, "T": T, "rewrite": kind}
    # as in the shipped examples, a benchmark session may run first on the SAME data source/handler (another
    # rebalance kind, same dates), followed by user code peeking at the latest prices; then the judged strategy
    plan["benchmark_first"] = None
    if rng.random() < 0.35:
        other = {"daily": "weekly", "weekly": "daily", "end_of_month": "daily", "buy_and_hold": "daily"}[cfg["rebalance"]]
        plan["benchmark_first"] = {"rebalance": other, "weekday": rng.choice(cal.WEEKDAYS),
                                   "peek": rng.random() < 0.5}
    return plan


def execute(plan, focus, trace=False):
    ctx = Ctx(focus, trace=trace)
    cfg = plan["cfg"]
    try:
        _run(plan, ctx)
    except StopRun:
        pass
    ctx.sim_seconds = 2 * max(0, cfg["end"] - cfg["start"])
    return ctx


def visible(out, limit):
    """Everything a run produced that is dated before `limit` (exclusive), rendered bit-exactly."""
    v = {}
    v["equity"] = [(t, fhex(x)) for t, x in out.equity if t < limit]
    v["fills"] = [(x["t"], x["asset"], fhex(x["qty"]), fhex(x["price"]), fhex(x["comm"]))
                  for x in out.rec.txns if x["t"] < limit]
    v["history"] = [(t, typ, desc, fhex(d), fhex(c), fhex(b)) for (t, typ, desc, d, c, b) in out.history if t < limit]
    v["allocations"] = [[(k, fhex(val) if k != "Date" else val) for k, val in d.items()]
                        for d in out.allocs_live if d["Date"] < limit]
    ev_t = dict((i, t) for i, (t, _) in enumerate(out.rec.events))
    v["signal_observations"] = [(ev_t.get(ev), nm, a, fhex(p)) for ev, nm, a, p in sorted(out.rec.appends)
                                if ev_t.get(ev, limit) < limit]
    v["rebalances"] = [(p["t"], sorted(p["universe"]), p["orders"] and [(a, q) for a, q, _ in p["orders"]], p["exc"])
                       for p in out.rec.pcm if p["t"] < limit]
    return v


def _world_run(plan, market, ctx):
    """One world: the judged session, possibly after a benchmark session and price peeks on the same source."""
    cfg = plan["cfg"]
    bf = plan.get("benchmark_first")
    if not bf or cfg["data_via"] == "env":
        return sl.run_session(cfg, market)
    import shutil
    from qstrader.data.daily_bar_csv import CSVDailyBarDataSource
    from qstrader.asset.equity import Equity
    from ..core import ts
    dirpath = mk.scratch_dir(cfg.get("dir_suffix", ""))
    try:
        mk.write_market(market, dirpath)
        try:
            src = CSVDailyBarDataSource(dirpath, Equity, adjust_prices=cfg.get("adjust", True))
        except Exception:
            return sl.run_session(cfg, market)          # reported as the construction failure it is
        bcfg = dict(cfg)
        bcfg["rebalance"], bcfg["weekday"] = bf["rebalance"], bf["weekday"]
        sl.run_session(bcfg, market, monitors=False, shared_source=src)
        ctx.fault("benchmark_session_first_on_the_same_source")
        if bf.get("peek"):
            for sym in sorted(market["assets"]):
                try:
                    src.get_bid(ts(cfg["end"]), "EQ:" + sym)
                    src.get_ask(ts(cfg["end"]), "EQ:" + sym)
                except Exception:
                    pass
        return sl.run_session(cfg, market, shared_source=src)
    finally:
        shutil.rmtree(dirpath, ignore_errors=True)


def _run(plan, ctx):
    P = "C07"
    cfg, T = plan["cfg"], plan["T"]
    limit = (T + 1) * DAY
    ctx.step = 0
    ctx.fault("future_" + plan["rewrite"])
    a = _world_run(plan, plan["market"], ctx)
    b = _world_run(plan, plan["market_b"], ctx)
    ctx.event("A", a.ctor_exc, a.exc, a.exc_at)
    ctx.event("B", b.ctor_exc, b.exc, b.exc_at)
    sched = cal.schedule(cfg["rebalance"], cfg["start"], cfg["end"], wd=cfg.get("weekday"))
    days = sorted(set(t // DAY for t in sched))
    if not days or T < days[0]:
        pos = "before_first"
    elif T in days:
        pos = "on_rebalance_day"
    elif (T - 1) in days:
        pos = "day_after_rebalance"
    elif T > days[-1]:
        pos = "after_last"
    else:
        pos = "between"
    no_row = any(all(r[0] > T for r in x["rows"]) for x in plan["market"]["assets"].values())
    ended = "ctor" if a.ctor_exc else ("raised_before_cut" if (a.exc and (a.exc_at or 0) < limit) else
                                      ("raised_after_cut" if a.exc else "ok"))
    ctx.sig(zlib.crc32(("%s|%s|%s|%s|%s|%s|%s" % (plan["rewrite"], pos, cfg["alpha"]["kind"], cfg["universe"]["kind"],
                                                  cfg["long_only"], no_row, ended)).encode()))
    ctx.probe("cut_" + pos)
    if no_row:
        ctx.fault("asset_without_row_up_to_cut")
    if a.ctor_exc is not None or b.ctor_exc is not None:
        # construction reads the whole file; it may only fail identically
        ctx.check(P, a.ctor_exc == b.ctor_exc or _ctor_depends_on_future_only(a, b), "construction_differs_between_worlds",
                  lambda: {"A": a.ctor_exc, "B": b.ctor_exc})
        return
    va, vb = visible(a, limit), visible(b, limit)
    for x in a.rec.txns:
        ctx.event("txnA", x["t"], x["asset"], x["qty"], x["price"])
    for key in ("equity", "fills", "history", "allocations", "signal_observations", "rebalances"):
        if va[key] != vb[key]:
            n = min(len(va[key]), len(vb[key]))
            i = next((j for j in range(n) if va[key][j] != vb[key][j]), n)
            ctx.violate(P, "past_%s_depend_on_future_data" % key,
                        {"cut_day": mk.date_str(T), "rewrite": plan["rewrite"], "first_difference_index": i,
                         "world_A": _show(va[key][i:i + 2]), "world_B": _show(vb[key][i:i + 2]),
                         "n_A": len(va[key]), "n_B": len(vb[key])},
                        sig="past_%s_depend_on_future_data" % key)
            return
        ctx.ok(P)
    # failure symmetry
    fa = a.exc is not None and a.exc_at is not None and a.exc_at < limit
    fb = b.exc is not None and b.exc_at is not None and b.exc_at < limit
    if fa or fb:
        ctx.probe("failure_at_or_before_cut")
        same = fa and fb and a.exc == b.exc and a.exc_at == b.exc_at
        ctx.check(P, same, "failure_before_cut_differs_between_worlds",
                  lambda: {"A": [a.exc, iso(a.exc_at) if a.exc_at else None],
                           "B": [b.exc, iso(b.exc_at) if b.exc_at else None], "cut_day": mk.date_str(T)},
                  sig="failure_before_cut_differs_between_worlds")


def _ctor_depends_on_future_only(a, b):
    return False


def _show(items):
    out = []
    for it in items:
        row = []
        for x in (it if isinstance(it, (list, tuple)) else [it]):
            if isinstance(x, int) and x > 10 ** 8:
                row.append(iso(x))
            elif isinstance(x, str) and x.startswith(("0x", "-0x")):
                row.append(float.fromhex(x))
            else:
                row.append(x)
        out.append(row)
    return out


SHRINK_LISTS = ()


def simplifications(plan):
    from . import session as sw
    # reuse the session simplifications on the shared configuration, applying them to both markets
    base = {"world": "session", "cfg": plan["cfg"], "market": plan["market"], "bad": None}
    for cand in sw.simplifications(base):
        p = copy.deepcopy(plan)
        p["cfg"] = cand["cfg"]
        keep = set(cand["market"]["assets"])
        p["market"]["assets"] = dict((s, v) for s, v in p["market"]["assets"].items() if s in keep)
        p["market_b"]["assets"] = dict((s, v) for s, v in p["market_b"]["assets"].items() if s in keep)
        if p["T"] * DAY > p["cfg"]["end"]:
            continue
        yield p

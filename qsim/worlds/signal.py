"""SIGNAL world: real MomentumSignal / SMASignal / VolatilitySignal / AssetPriceBuffers /
SignalsCollection / universes under a generated interleaving of appends, collection updates and
queries across assets and lookbacks (C16: definitions and isolation).

Stub: QuoteBook data handler.  Reference: the full list of observations per (signal, asset), the
definitions evaluated on its tail with math.fsum.
"""
import math
import zlib

from ..core import Ctx, StopRun, close, fhex, ts, DAY, CLOSE_S, iso
from ..quotebook import QuoteBook

NAME = "signal"
ISOLATE = "fork"
PROPS = ("C16",)
CHUNK = {"quick": 10, "thorough": 10}
RULE = ("(signal kind, lookback N, number of observations capped at N+2, window state empty / warming up / exactly "
        "full / rolled over, universe kind, whether the asset entered late)")

ASSETS = ["EQ:AAA", "EQ:AAA_B", "EQ:CCC", "EQ:CC"]     # one symbol is another plus "_<suffix>", one a prefix
KINDS = ("mom", "sma", "vol")


def _p(rng, base=None):
    if base is None:
        return round(math.exp(rng.uniform(math.log(0.5), math.log(900.0))), 4)
    r = rng.random()
    if r < 0.02:
        # a redenomination / extreme move: many orders of magnitude in one observation
        return min(1e15, max(1e-6, float("%.6g" % (base * rng.choice([1e-11, 1e-8, 1e-4, 1e4, 1e8, 1e11])))))
    if r < 0.1:
        return base                    # flat stretch: zero returns
    return max(0.01, round(base * math.exp(rng.gauss(0.0, 0.03)), 4))


def generate(rng, focus, tier="quick"):
    n_assets = rng.randrange(1, 5)
    assets = ASSETS[:n_assets]
    lookbacks = {}
    for k in KINDS:
        n = rng.randrange(1, 4)
        lookbacks[k] = sorted(rng.sample(range(1, 13), n))
    dynamic = rng.random() < 0.5
    start = rng.randrange(16436, 20000) * DAY
    entries = {}
    if dynamic:
        for a in assets:
            r = rng.random()
            if r < 0.4:
                entries[a] = start - rng.choice([0, DAY])
            elif r < 0.9:
                entries[a] = start + rng.randrange(0, 20) * DAY + rng.choice([0, CLOSE_S, CLOSE_S + 60])
            else:
                entries[a] = None
    swap = None
    if dynamic and n_assets >= 2 and rng.random() < 0.25:
        a_out, a_in = rng.sample(assets, 2)
        t_sw = start + rng.randrange(1, 15) * DAY + rng.choice([0, CLOSE_S])
        entries[a_out] = start - DAY
        entries[a_in] = t_sw
        swap = {"out": a_out, "in": a_in, "t": t_sw}
    n_ops = rng.choice([10, 20, 40, 80])
    ops = []
    last = dict((a, _p(rng)) for a in assets)
    t = start
    p_update = rng.choice([0.3, 0.6, 0.9])
    # a steadily compounding market (every observation the previous one times a constant, at full float
    # precision): returns that are nearly, but not exactly, identical - the hard case for a variance
    grow = None
    if rng.random() < 0.15:
        grow = dict((a, rng.choice([1.1, 1.03, 1.01, 1.001, 0.99, 1.0 + 1.0 / 3.0])) for a in assets)
        _plain = _p

        def _step(a_):
            return last[a_] * grow[a_]
    # an integer-tick feed in a tiny currency unit: prices are whole numbers of a few 1e8, handed over as numpy
    # int32 / int64 - every single price fits the type comfortably, a window's sum does not
    int_feed = None
    if grow is None and rng.random() < 0.08:
        int_feed = rng.choice(["int32", "int32", "int64"])
        p_update = 0.0
        base_ = 3.0e8 if int_feed == "int32" else 3.0e18
        last = dict((a, float(int(base_ * rng.uniform(0.7, 1.4)))) for a in assets)
    for _ in range(n_ops):
        if rng.random() < p_update:
            t += rng.choice([DAY, DAY, DAY, 3 * DAY])
            quotes = {}
            for a in assets:
                last[a] = _step(a) if grow else _p(rng, last[a])
                spread = round(last[a] * 0.001 + 0.0001, 4)
                quotes[a] = [last[a], round(last[a] + spread, 4)]
            ops.append({"k": "update", "t": (t // DAY) * DAY + CLOSE_S, "quotes": quotes})
        else:
            a = rng.choice(assets)
            if int_feed:
                pr = int(last[a] * rng.uniform(0.97, 1.03))
                last[a] = float(pr)
                ops.append({"k": "append", "sig": rng.choice(KINDS), "asset": a, "price": pr, "np_int": int_feed})
                continue
            last[a] = _step(a) if grow else _p(rng, last[a])
            pr = last[a]
            if rng.random() < 0.1 and pr >= 1:
                pr = int(pr)                       # a whole price handed over as a Python int
                last[a] = float(pr)
            ops.append({"k": "append", "sig": rng.choice(KINDS), "asset": a, "price": pr})
    cfg = {"assets": assets, "lookbacks": lookbacks, "dynamic": dynamic, "entries": entries, "start": start, "swap": swap}
    if rng.random() < 0.3 and n_assets > 1:
        # the signals of one collection built on DIFFERENT universe objects
        per = {}
        for k in KINDS:
            if rng.random() < 0.5:
                per[k] = {"dynamic": False, "assets": sorted(rng.sample(assets, rng.randrange(1, n_assets + 1)))}
            else:
                ent = {}
                for a in assets:
                    r = rng.random()
                    ent[a] = (start - DAY) if r < 0.4 else ((start + rng.randrange(0, 20) * DAY + rng.choice([0, CLOSE_S])) if r < 0.9 else None)
                per[k] = {"dynamic": True, "entries": ent}
        cfg["per_signal"] = per
    return {"world": NAME, "cfg": cfg, "ops": ops}


def ref_value(kind, hist, n):
    if kind == "mom":
        w = hist[-(n + 1):]
        if len(w) < 2:
            return 0.0
        return w[-1] / w[0] - 1.0
    if kind == "sma":
        w = hist[-n:]
        if not w:
            return None
        return math.fsum(w) / len(w)
    w = hist[-(n + 1):]
    rets = [w[i + 1] / w[i] - 1.0 for i in range(len(w) - 1)]
    if not rets:
        return 0.0
    mu = math.fsum(rets) / len(rets)
    var = math.fsum((r - mu) ** 2 for r in rets) / len(rets)
    return math.sqrt(var) * math.sqrt(252)


def execute(plan, focus, trace=False):
    from ..core import apply_host_state
    apply_host_state(plan)
    ctx = Ctx(focus, trace=trace)
    try:
        _run(plan, ctx)
    except StopRun:
        pass
    return ctx


def _run(plan, ctx):
    from qstrader.signals.momentum import MomentumSignal
    from qstrader.signals.sma import SMASignal
    from qstrader.signals.vol import VolatilitySignal
    from qstrader.signals.signals_collection import SignalsCollection
    from qstrader.asset.universe.static import StaticUniverse
    from qstrader.asset.universe.dynamic import DynamicUniverse
    cfg = plan["cfg"]
    assets = list(cfg["assets"])
    start = cfg["start"]
    def make_universe(dynamic, ent, members):
        if dynamic and cfg.get("swap") and ent is cfg["entries"]:
            # a fixed-size index: one member is dropped at the very instant another one enters (custom Universe)
            from qstrader.asset.universe.universe import Universe
            sw = cfg["swap"]

            class FixedSizeIndex(Universe):
                def __init__(self, entries, out, when):
                    self.entries, self.out, self.when = dict(entries), out, when

                def get_assets(self, dt):
                    return [a for a, e in self.entries.items()
                            if e is not None and dt >= e and not (a == self.out and dt >= self.when)]
            ctx.fault("universe_member_swapped_at_constant_size")
            return FixedSizeIndex(dict((a, (ts(e) if e is not None else None)) for a, e in ent.items()),
                                  sw["out"], ts(sw["t"])), dict(ent)
        if dynamic:
            return DynamicUniverse(dict((a, (ts(e) if e is not None else None)) for a, e in ent.items())), dict(ent)
        return StaticUniverse(list(members)), dict((a, (start - DAY if a in members else None)) for a in assets)
    if cfg["dynamic"]:
        uni, entries = make_universe(True, cfg["entries"], None)
    else:
        uni, entries = make_universe(False, None, assets)
    unis = dict((k, uni) for k in KINDS)
    entries_k = dict((k, entries) for k in KINDS)
    if cfg.get("per_signal"):
        ctx.fault("signals_on_different_universe_objects")
        for k in KINDS:
            spec = cfg["per_signal"][k]
            unis[k], entries_k[k] = make_universe(spec["dynamic"], spec.get("entries"), spec.get("assets"))
    qb = QuoteBook()
    S = ts(start)
    lbs = cfg["lookbacks"]
    sigs = {"mom": MomentumSignal(S, unis["mom"], list(lbs["mom"])),
            "sma": SMASignal(S, unis["sma"], list(lbs["sma"])),
            "vol": VolatilitySignal(S, unis["vol"], list(lbs["vol"]))}
    coll = SignalsCollection(dict(sigs), qb)
    hist = dict(((k, a), []) for k in KINDS for a in assets)
    member = dict((k, set(a for a in assets if entries_k[k].get(a) is not None and entries_k[k][a] <= start)) for k in KINDS)
    has_buffer = dict((k, set(member[k])) for k in KINDS)
    prev = {}
    n_updates = 0

    def judge(touched):
        for k in KINDS:
            for a in assets:
                if a not in has_buffer[k]:
                    continue
                h = hist[(k, a)]
                for n in lbs[k]:
                    try:
                        got = sigs[k](a, n)
                    except Exception as e:
                        if k == "sma" and not h:
                            # the mean of no observation is not defined by the property (NaN, or an error when the
                            # host has numpy raise on invalid operations)
                            ctx.probe("sma_without_observation_raised:" + type(e).__name__)
                            continue
                        ctx.violate("C16", "signal_query_raised", {"signal": k, "asset": a, "lookback": n,
                                                                  "n_obs": len(h), "exc": repr(e)[:200]})
                        return
                    want = ref_value(k, h, n)
                    key = (k, a, n)
                    hx = fhex(got)
                    state = "empty" if not h else ("warm" if len(h) < n + (0 if k == "sma" else 1) else (
                        "full" if len(h) == n + (0 if k == "sma" else 1) else "rolled"))
                    ek = entries_k[k].get(a)
                    ctx.sig(zlib.crc32(("%s|%d|%d|%s|%s|%s|%s" % (k, n, min(len(h), n + 2), state, cfg["dynamic"],
                                                                  ek is not None and ek > start, bool(cfg.get("per_signal")))).encode()))
                    if want is not None:
                        scale = max(abs(want), 1.0) if k != "sma" else abs(want)
                        # the tolerance follows the conditioning of the *current* window: while an observation many
                        # orders of magnitude away is inside it, return-based formulas lose that many digits; once
                        # it has left, the answer must be tight again
                        win = h[-(n + (0 if k == "sma" else 1)):]
                        cond = (max(win) / min(win)) if win else 1.0
                        if cond > 1e6:
                            ctx.probe("window_spanning_more_than_six_orders_of_magnitude")
                        if not ctx.check("C16", close(got, want, scale=scale, rel=1e-9 * max(1.0, cond), abs_=1e-12),
                                         "signal_value_differs_from_definition",
                                         lambda: {"signal": k, "asset": a, "lookback": n, "got": float(got),
                                                  "definition": want, "n_observations": len(h),
                                                  "tail": h[-(n + 2):]},
                                         sig="signal_value_differs_from_definition:%s:%s" % (k, state)):
                            return
                    # isolation: an answer moves only when its own (signal, asset) stream got an observation
                    if (k, a) not in touched and key in prev:
                        if not ctx.check("C16", prev[key] == hx, "signal_changed_by_unrelated_observation",
                                         lambda: {"signal": k, "asset": a, "lookback": n, "before": prev[key],
                                                  "after": hx, "touched": sorted(touched)},
                                         sig="signal_changed_by_unrelated_observation"):
                            return
                    prev[key] = hx

    judge(set())
    for i, op in enumerate(plan["ops"]):
        ctx.step = i
        touched = set()
        if op["k"] == "append":
            k, a, p = op["sig"], op["asset"], op["price"]
            if op.get("np_int"):
                import numpy as np
                p = getattr(np, op["np_int"])(p)          # an integer-tick feed handing over fixed-width numpy integers
                ctx.probe("price_as_numpy_" + op["np_int"])
            try:
                sigs[k].append(a, p)
            except Exception as e:
                from qsim.core import raised_in_repo as _rir
                if not _rir(e):
                    raise          # a bug of the harness: exit 2, never a verdict
                ctx.violate("C16", "append_raised", {"signal": k, "asset": a, "price": p, "exc": repr(e)[:200]})
                return
            hist[(k, a)].append(float(p))
            has_buffer[k].add(a)
            touched.add((k, a))
            ctx.event("append", k, a, float(p))
        else:
            t = op["t"]
            for a, (b, s_) in sorted(op["quotes"].items()):
                qb.set(a, b, s_)
            try:
                coll.update(ts(t))
            except Exception as e:
                from qsim.core import raised_in_repo as _rir
                if not _rir(e):
                    raise          # a bug of the harness: exit 2, never a verdict
                ctx.violate("C16", "collection_update_raised", {"t": iso(t), "exc": repr(e)[:300]})
                return
            n_updates += 1
            for k in KINDS:
                for a in assets:
                    e = entries_k[k].get(a)
                    if e is not None and e <= t:
                        if a not in member[k]:
                            ctx.probe("asset_entered_dynamic_universe")
                            if len(hist[(k, a)]) == 0:
                                ctx.probe("late_entrant_starts_with_empty_window")
                        member[k].add(a)
                for a in sorted(member[k]):
                    hist[(k, a)].append(float(qb.mid(a)))
                    has_buffer[k].add(a)
                    touched.add((k, a))
            ctx.event("update", t, n_updates)
            ctx.check("C16", coll.warmup == n_updates, "warmup_counter_not_number_of_updates",
                      lambda: {"warmup": coll.warmup, "updates": n_updates})
            # an asset not (yet) in the universe must not have received an observation
            for k in KINDS:
                for a in assets:
                    if a not in has_buffer[k]:
                        # no observation may exist: the moving average has nothing to average
                        try:
                            v = sigs["sma"](a, lbs["sma"][0]) if a not in has_buffer["sma"] else float("nan")
                        except KeyError:
                            v = float("nan")
                        except Exception as e:
                            v = float("nan")
                        ctx.check("C16", v != v, "observation_before_universe_entry",
                                  lambda: {"signal": k, "asset": a, "t": iso(t), "sma": v})
        judge(touched)
        ctx.sim_seconds = max(ctx.sim_seconds, (op.get("t", start) - start))


def simplifications(plan):
    import copy
    cfg = plan["cfg"]
    for k in KINDS:
        if len(cfg["lookbacks"][k]) > 1:
            for n in cfg["lookbacks"][k]:
                p = copy.deepcopy(plan)
                p["cfg"]["lookbacks"][k] = [n]
                yield p
    if cfg["dynamic"]:
        p = copy.deepcopy(plan)
        p["cfg"]["dynamic"] = False
        p["cfg"]["entries"] = {}
        yield p

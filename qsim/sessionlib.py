"""Shared machinery of the SESSION-type worlds (session, pair, repeat): configuration swarm,
construction of the real BacktestTradingSession over a synthetic market on a scratch directory,
monitors attached by instance wrapping, and the recorded outcome of one run.

Real code: everything in qstrader that a backtest touches.  Stubs (mine): three signal-driven
alpha models (the repo ships none outside examples/).
"""
import math
import os
import re
import shutil

from .core import ts, epoch, fhex, DAY, OPEN_S, CLOSE_S, iso
from . import market as mk
from . import calendar_ref as cal

PID = "000001"
END_TOD = 23 * 3600 + 59 * 60


# ---------------------------------------------------------------------------
# configuration swarm
# ---------------------------------------------------------------------------

def gen_config(rng, profile="any", tier="quick"):
    """Draw one backtest configuration + market.  `profile` narrows the swarm to a property's domain."""
    # C18 (REPEAT): the C14 swarm, plus markets whose first bars carry empty cells and start with the session, so
    # that "no price yet" is actually asked for
    lead = (profile == "C18")
    if lead:
        profile = "C14"
    n_assets = rng.randrange(1, 6)
    if rng.random() < (0.2 if tier == "thorough" else 0.05):
        n_assets = rng.randrange(6, 11)             # wide universes
    # a whole calendar year, 1 January to 31 December (New Year at both ends of one run: ISO week 1 / week 52-53
    # of the same calendar year), with a small universe to keep it affordable
    whole_year = profile in ("C08", "C14", "any") and rng.random() < (0.08 if tier == "thorough" else 0.03)
    if whole_year:
        n_assets = rng.randrange(1, 3)
    syms = list(mk.SYMS[:n_assets])
    if n_assets >= 2 and rng.random() < 0.12:
        # tickers that differ only by leading zeros in a digit run (numeric exchange codes): distinct symbols
        syms[:2] = rng.choice([["7", "007"], ["A1", "A01"], ["0700", "700"]])
    assets = ["EQ:" + s for s in syms]
    if tier == "quick":
        n_bdays = rng.choice([5, 8, 12, 20, 30, 45, 65])
    else:
        n_bdays = rng.choice([5, 10, 20, 30, 45, 65, 90, 120, 260])   # up to a full year
    d0 = rng.randrange(cal.epoch_day(2005, 1, 1), cal.epoch_day(2024, 6, 1))
    if rng.random() < 0.75:
        while not cal.is_bday(d0):
            d0 += 1
    # number of calendar days that give n_bdays business days
    d1 = d0
    k = 0
    while True:
        if cal.is_bday(d1):
            k += 1
            if k >= n_bdays:
                break
        d1 += 1
    reb = rng.choice(["weekly", "weekly", "daily", "end_of_month", "buy_and_hold"])
    # REPEAT: the one situation in which a backtest asks for a price that does not exist yet - a buy-and-hold that
    # sizes at 14:30 on the very first bar of the data, whose Open cell is empty
    lead_bah = lead and rng.random() < 0.25
    if lead_bah:
        reb = "buy_and_hold"
    if whole_year:
        y_w = rng.randrange(2005, 2024)
        d0, d1 = cal.epoch_day(y_w, 1, 1), cal.epoch_day(y_w, 12, 31)
        reb = rng.choice(["weekly", "weekly", "daily"])
    if rng.random() < 0.25 and not whole_year:
        # calendar coincidences: let the range end on the last business day of a month (often a Friday before a
        # weekend month end), or start on the first
        import calendar as _c
        y_, m_, _dd = cal.ymd(d1)
        L = cal.last_bday_of_month(y_, m_)
        if rng.random() < 0.5:
            # prefer a month whose calendar end falls on a weekend
            for k_ in range(0, 14):
                yy, mm = y_ + (m_ - 1 + k_) // 12, (m_ - 1 + k_) % 12 + 1
                if cal.day_weekday(cal.epoch_day(yy, mm, _c.monthrange(yy, mm)[1])) > 4:
                    L = cal.last_bday_of_month(yy, mm)
                    break
        if L > d0:
            d1 = L
    stod = OPEN_S if (reb == "buy_and_hold" or rng.random() < 0.4) else 0
    start = d0 * DAY + stod
    end = d1 * DAY + END_TOD
    wd = rng.choice(cal.WEEKDAYS)
    if rng.random() < 0.2:
        wd = wd.lower() if rng.random() < 0.7 else wd.capitalize()
    long_only = rng.random() < 0.5
    cfg = {
        "start": start, "end": end, "rebalance": reb, "weekday": wd, "long_only": long_only,
        "cash_buffer": rng.choice([0.0, 0, 0.01, 0.05, 0.05, 0.1, 0.25, 0.5]),
        "leverage": rng.choice([0.5, 1.0, 1, 1.5, 2.0, 2, 3.0]),
        "initial_cash": rng.choice([1e3, 1e4, 1e5, 1e6, 1000000, 1e7, 123456.78, 98765.4321]),
        "fee": ({"kind": "zero"} if rng.random() < 0.4 else
                {"kind": "pct", "c": rng.choice([0.0, 1e-4, 1e-3, 2.5e-3, 0.01]),
                 "t": rng.choice([0.0, 0.0, 5e-4, 5e-3])}),
        "portfolio_id": rng.choice(["000001", "000001", "000001", "master", "p 1%"]),
        # a second funded portfolio opened at the session's own broker (public API) before run()
        "sleeve": rng.choice([None, None, None, None, 250000.0, 1234.56]),
        "burn_in": None,
        "data_via": rng.choice(["env", "handler_symbols", "handler_listdir"]),
        "adjust": True,
        "dir_suffix": rng.choice(mk.DIR_SUFFIXES),
        "both_sizer_kwargs": rng.random() < 0.25,
        "print_events": rng.random() < 0.08,       # the library's default is to print every event
    }
    if rng.random() < 0.12:
        # fee models built on the extension points: a ZeroFeeModel subclass that charges, a PercentFeeModel
        # subclass overriding only the tax hook
        cfg["fee"] = rng.choice([{"kind": "subzero", "c": rng.choice([1e-3, 0.01])},
                                 {"kind": "subpct", "c": rng.choice([0.0, 1e-3]), "t": 0.5, "t2": rng.choice([0.0, 5e-3])}])
    if profile == "C08" and rng.random() < 0.12:
        # a STATEFUL fee model (documented extension point): volume tiers counted on fill calls (quantity != 0) -
        # the first k fills at one rate, later ones at another; estimates (quantity 0) do not count
        cfg["fee"] = {"kind": "tiered", "c": rng.choice([2e-3, 0.01]), "c2": rng.choice([0.0, 5e-4]), "k": rng.choice([1, 2, 3, 5, 8])}
    # ---- universe -------------------------------------------------------------------------
    dynamic = rng.random() < (0.7 if profile == "C19" else 0.35)
    if profile == "C08":
        dynamic = rng.random() < 0.15
    sched = cal.schedule(reb, start, end, wd=wd)
    entries = None
    late = {}
    if dynamic:
        entries = {}
        for a in assets:
            r = rng.random()
            if r < 0.04 and profile != "C08":
                entries[a] = -rng.choice([1, 365, 2922, 20000]) * DAY          # listed before 1970 (negative epoch)
            elif r < 0.35 or profile == "C08":
                entries[a] = start - rng.choice([0, DAY, 30 * DAY])
            elif r < 0.55 and sched:
                entries[a] = rng.choice(sched)                      # exactly on a rebalance instant
            elif r < 0.70 and sched:
                entries[a] = rng.choice(sched) + 60                 # one minute after it
            elif r < 0.85:
                entries[a] = start + rng.randrange(0, max(1, end - start))
            elif r < 0.93:
                entries[a] = end + rng.choice([60, DAY, 10 * DAY])  # after the end
            else:
                entries[a] = None
        if all(e is None or e > end for e in entries.values()) and rng.random() < 0.8:
            entries[assets[0]] = start
    if profile in ("C14", "C16", "C19", "any") and rng.random() < 0.15:
        cfg["adjust"] = False                    # unadjusted prices: only possible with a handler of our own
        if cfg["data_via"] == "env":
            cfg["data_via"] = "handler_listdir"
    cfg["universe"] = {"kind": "dynamic", "entries": entries} if dynamic else {"kind": "static", "assets": list(assets)}
    if (not dynamic) and profile in ("C14", "C09", "any", "C07") and rng.random() < 0.25:
        # a user-defined Universe (subclass of the documented extension point) from which assets LEAVE - possibly
        # all of them, early: later rebalances then find an empty universe (and, soon, a flat book)
        leave = {}
        everyone = rng.random() < 0.3
        for a in rng.sample(assets, n_assets if everyone else rng.randrange(1, max(2, n_assets))):
            leave[a] = (rng.choice(sched[:max(1, len(sched) // 2)] if everyone else sched) + rng.choice([0, 0, 60])) \
                if (sched and rng.random() < 0.6) else (start + rng.randrange(0, max(1, (end - start) // (2 if everyone else 1))))
        cfg["universe"] = {"kind": "leaving", "assets": list(assets), "leave": leave}
    if dynamic and profile in ("C19", "any") and rng.random() < 0.2:
        cfg["universe"]["cursor"] = True
    if cfg["universe"]["kind"] == "leaving":
        cfg["universe"]["ret"] = rng.choice(["list", "list", "tuple", "gen"])
    if dynamic and rng.random() < 0.3:
        cfg["universe"]["decoy"] = True
    if dynamic and rng.random() < 0.3:
        cfg["universe"]["absent_as_nat"] = True
    if dynamic and rng.random() < 0.25:
        cfg["universe"]["py_datetime"] = True
    if dynamic and rng.random() < 0.3:
        # the same instants, written down in other time zones (tz-aware timestamps are legal entry dates)
        cfg["universe"]["tz"] = dict((a, rng.choice(["US/Eastern", "Asia/Tokyo", "Europe/London", "UTC"])) for a in assets)
    # ---- market ---------------------------------------------------------------------------
    faults = []
    if rng.random() < 0.4:
        faults.append("gap_days")
    if profile in ("C07", "any") and rng.random() < 0.25:
        faults.append("late_start")
    if profile in ("C07",) and rng.random() < 0.2:
        faults.append("empty_cell")
    if rng.random() < 0.3:
        faults.append("shuffle_rows")
    if rng.random() < 0.2:
        faults.append("halt")              # a week or two without bars for an asset: prices are carried forward
    pre_days = rng.choice([0, 1, 3, 10]) if not lead else rng.choice([0, 0, 0, 1, 3])
    if lead_bah:
        pre_days = 0
    md0 = d0 - pre_days
    while not cal.is_bday(md0):
        md0 -= 1
    n_market = len(cal.business_days(md0 * DAY, d1 * DAY))
    if rng.random() < 0.15:
        n_market = max(2, n_market - rng.choice([1, 2, 3, 3, 8, 15]))           # data end before the backtest does
    if cfg["adjust"] is False and profile in ("C14", "any") and rng.random() < 0.5:
        faults.append("empty_cell")
    jump_p = 0.0
    if profile in ("C08", "any") and not cfg["long_only"] and rng.random() < 0.3:
        # a leveraged book in a market that gaps: equity can go through zero between two rebalances
        cfg["leverage"] = rng.choice([3.0, 5.0, 8.0])
        jump_p = rng.choice([0.05, 0.1, 0.2])
    market = mk.gen_market(rng, n_assets, md0, n_market, adjust=cfg["adjust"], faults=faults,
                           low_priced_p=0.3 if profile == "C08" else 0.15, jump_p=jump_p,
                           weekend_rows=(profile in ("C07", "any") and rng.random() < 0.25), syms=syms)
    if rng.random() < 0.12 and profile != "C07":
        # a second listing of the first symbol in the same directory, with other prices; it is nobody's data
        base = market["assets"][syms[0]]["rows"]
        market["extra_files"] = {syms[0] + ".L": [[r[0]] + [(None if x is None else mk.r4(x * 7.0 + 3.0)) for x in r[1:6]] + [r[6]]
                                                  for r in base]}
    # the first row of an asset is never removed by gap_days; with late_start it starts later
    if dynamic:
        # an asset must have data from its entry on (C19 domain); otherwise keep as generated for C07
        for a in assets:
            sym = a[3:]
            rows = market["assets"][sym]["rows"]
            first = min(r[0] for r in rows) * DAY + OPEN_S
            e = entries[a]
            if e is not None and e < first and profile != "C07":
                entries[a] = first + rng.choice([0, CLOSE_S - OPEN_S])
    elif profile not in ("C07", "any") or cfg["universe"]["kind"] == "leaving":
        # static universe: every asset needs a price at the first rebalance
        for sym in syms:
            rows = market["assets"][sym]["rows"]
            if min(r[0] for r in rows) > md0:
                firstrow = list(sorted(rows)[0])
                firstrow[0] = md0
                rows.append(firstrow)
    lead_applied = False
    if lead_bah:
        lead_applied = True
        for sym in syms:
            rows = sorted(market["assets"][sym]["rows"], key=lambda r: r[0])
            if rng.random() < 0.7:
                rows[0][1] = None
                market["applied"].setdefault(sym, []).append("empty_cell:leading")
    elif (profile == "C07" or lead) and rng.random() < (0.45 if lead else 0.3):
        lead_applied = True
        # leading empty cells: the first bar(s) of an asset carry no close (or no open) - a back-fill would reach
        # into the future here
        sym = rng.choice(syms)
        rows = sorted(market["assets"][sym]["rows"], key=lambda r: r[0])
        for r_ in rows[:rng.randrange(1, 6 if lead else 3)]:
            if rng.random() < 0.5:
                r_[4] = None
                r_[5] = None
            else:
                r_[1] = None
        market["applied"].setdefault(sym, []).append("empty_cell:leading")
    if profile != "C07" and not lead_applied:
        # first observation of every asset must be a number (no leading empty cells)
        for sym in syms:
            rows = market["assets"][sym]["rows"]
            f = min(rows, key=lambda r: r[0])
            for i in (1, 4, 5):
                if f[i] is None:
                    f[i] = 10.0
    # ---- alpha ----------------------------------------------------------------------------
    kinds = ["fixed", "fixed", "single", "topn", "sma", "invvol"]
    if profile == "C08":
        kinds = ["fixed"]
    elif profile == "C19":
        kinds = ["single", "single", "single", "topn", "fixed"]
    elif profile == "C16":
        kinds = ["topn", "sma", "invvol", "single"]
    kind = rng.choice(kinds)
    alpha = {"kind": kind}
    if kind in ("topn", "sma", "invvol") and cfg["universe"].get("ret"):
        cfg["universe"]["ret"] = "list"       # the signals append to what the universe hands them: a list it must be
    if kind == "fixed":
        w = {}
        for a in assets:
            r = rng.random()
            if r < 0.15:
                w[a] = 0.0
            elif r < 0.3 and len(assets) > 1:
                continue                                            # alpha silent on this asset
            else:
                w[a] = rng.choice([0.1, 0.2, 0.25, 0.3, 0.4, 0.5, 0.6, 1.0, 2.0, 3.0, round(rng.uniform(0.01, 1.0), 4)])
                if not long_only and rng.random() < 0.4:
                    w[a] = -w[a]
        if not w:
            w[assets[0]] = 1.0
        if rng.random() < 0.1:
            # integer-typed weights
            w = dict((a, rng.choice([1, 1, 2, 3]) * (-1 if (not long_only and rng.random() < 0.4) else 1)) for a in sorted(w))
        if rng.random() < 0.12:
            # almost-normalised vectors: thirds rounded to six decimals, 1 +/- a few 1e-6
            ks = sorted(w)
            base = round(1.0 / len(ks), 6)
            w = dict((a, base) for a in ks)
            if rng.random() < 0.5:
                w[ks[0]] = round(w[ks[0]] + rng.choice([-9e-6, -2e-6, 1e-6, 2e-6, 6e-6, 2e-5]), 6)
            if not long_only and rng.random() < 0.3:
                w[ks[-1]] = -w[ks[-1]]
        if rng.random() < 0.06:
            w = dict((a, 0.0) for a in w)                           # all-zero weights
        if dynamic is False and cfg["universe"]["kind"] == "static" and rng.random() < 0.1 and len(assets) > 1:
            # a weight for an asset outside the universe (it has data, it is just not a member)
            out = assets[-1]
            cfg["universe"]["assets"] = [a for a in assets if a != out]
            w[out] = abs(w.get(out, 0.3)) if long_only else w.get(out, 0.3)
        alpha["weights"] = w
    elif kind == "single":
        alpha["signal"] = rng.choice([1.0, 1.0, 0.5, 2.0, 0.25]) * (1.0 if long_only or rng.random() < 0.7 else -1.0)
    elif kind == "topn":
        alpha["lookback"] = rng.choice([1, 2, 3, 5, 8, 10])
        alpha["n"] = rng.randrange(1, n_assets + 1)
    elif kind == "sma":
        s_ = rng.choice([1, 2, 3, 5])
        alpha["short"] = s_
        alpha["long"] = s_ + rng.choice([1, 2, 5, 8])
    else:
        alpha["lookback"] = rng.choice([2, 3, 5, 8, 12])
    cfg["alpha"] = alpha
    if alpha["kind"] in ("topn", "sma", "invvol") and profile in ("C16", "any") and rng.random() < 0.3:
        # the signals collection is built on a data handler of its own (the other price adjustment), the session
        # is given a different one explicitly: signals must keep seeing the closes of THEIR handler
        cfg["signals_adjust"] = not cfg["adjust"]
        if cfg["data_via"] == "env":
            cfg["data_via"] = "handler_listdir"
    # ---- burn-in --------------------------------------------------------------------------
    r = rng.random()
    p_burn = 0.6 if profile == "C14" else 0.3
    if r < p_burn:
        r2 = rng.random()
        if r2 < 0.15:
            cfg["burn_in"] = start - rng.choice([DAY, 10 * DAY])
        elif r2 < 0.4 and sched:
            cfg["burn_in"] = rng.choice(sched)
        elif r2 < 0.55 and sched:
            cfg["burn_in"] = rng.choice(sched) + 60
        elif r2 < 0.7:
            dd = rng.randrange(d0, d1 + 1)
            # any time of day, the boundary ones in particular (the last minute of the day lies after the end's 23:59)
            cfg["burn_in"] = dd * DAY + rng.choice([OPEN_S, OPEN_S, 0, 1, OPEN_S - 1, OPEN_S + 1, CLOSE_S - 1, CLOSE_S,
                                                    CLOSE_S + 1, 86340, 86370, 86399])
        elif r2 < 0.9:
            cfg["burn_in"] = start + rng.randrange(0, max(1, end - start))
        else:
            cfg["burn_in"] = (sched[-1] + 60) if sched else end
    return cfg, market


# ---------------------------------------------------------------------------
# harness alpha models (stubs) -- deterministic, tie-break by asset name
# ---------------------------------------------------------------------------

def make_alpha(cfg, universe, signals, data_handler):
    from qstrader.alpha_model.alpha_model import AlphaModel
    from qstrader.alpha_model.fixed_signals import FixedSignalsAlphaModel
    from qstrader.alpha_model.single_signal import SingleSignalAlphaModel
    a = cfg["alpha"]
    long_only = cfg["long_only"]
    if a["kind"] == "fixed":
        return FixedSignalsAlphaModel(dict(a["weights"]))
    if a["kind"] == "single":
        return SingleSignalAlphaModel(universe, signal=a["signal"])

    class TopN(AlphaModel):
        def __call__(self, dt):
            assets = sorted(universe.get_assets(dt))
            w = dict((x, 0.0) for x in assets)
            if signals.warmup >= a["lookback"]:
                tracked = sorted(signals["momentum"].assets)
                cand = [x for x in assets if x in tracked]
                moms = sorted(((-(signals["momentum"](x, a["lookback"])), x) for x in cand))
                top = [x for _, x in moms[:a["n"]]]
                for x in top:
                    w[x] = 1.0 / a["n"]
                if not long_only and len(moms) > a["n"]:
                    w[moms[-1][1]] = -1.0 / a["n"]
            return w

    class SmaTrend(AlphaModel):
        def __call__(self, dt):
            assets = sorted(universe.get_assets(dt))
            w = {}
            tracked = set(signals["sma"].assets)
            for x in assets:
                if x in tracked and signals.warmup >= 1:
                    try:
                        s_ = signals["sma"](x, a["short"])
                        l_ = signals["sma"](x, a["long"])
                    except KeyError:
                        w[x] = 0.0
                        continue
                    if s_ > l_:
                        w[x] = 1.0
                    elif s_ < l_ and not long_only:
                        w[x] = -0.5
                    else:
                        w[x] = 0.0
                else:
                    w[x] = 0.0
            return w

    class InvVol(AlphaModel):
        def __call__(self, dt):
            assets = sorted(universe.get_assets(dt))
            w = {}
            tracked = set(signals["vol"].assets)
            for x in assets:
                v = 0.0
                if x in tracked and signals.warmup >= 2:
                    try:
                        v = float(signals["vol"](x, a["lookback"]))
                    except KeyError:
                        v = 0.0
                w[x] = (1.0 / v) if v > 1e-12 else 0.0
            return w

    return {"topn": TopN, "sma": SmaTrend, "invvol": InvVol}[a["kind"]]()


# ---------------------------------------------------------------------------
# monitors
# ---------------------------------------------------------------------------

class Rec(object):
    def __init__(self):
        self.events = []        # (sec, type) as emitted by the real clock
        self.cur = -1           # index of the current event
        self.pcm = []           # dict(t, ev, orders=[(asset, qty, created_sec)], exc)
        self.sizer = []         # dict(t, ev, weights, result, equity, cash, prices, exc)
        self.opt = []           # dict(t, weights_in, weights_out)
        self.alpha = []         # dict(t, weights)
        self.txns = []          # dict(t, ev, asset, qty, price, comm)
        self.appends = []       # (ev, signal name, asset, price)
        self.updates = []       # broker.update instants
        self.universe_at = []   # (t, assets) as seen by the PCM's universe at each PCM call
        self.exc = None
        self.seq = 0            # global order of recorded happenings
        self.live_stats = None

    def tick(self):
        self.seq += 1
        return self.seq


class _EngineProxy(object):
    def __init__(self, inner, rec):
        self._inner = inner
        self._rec = rec

    def __iter__(self):
        for ev in self._inner:
            self._rec.events.append((epoch(ev.ts), ev.event_type))
            self._rec.cur = len(self._rec.events) - 1
            yield ev

    def __getattr__(self, name):
        return getattr(self._inner, name)


class _CallProxy(object):
    def __init__(self, inner, fn):
        self._inner = inner
        self._fn = fn

    def __call__(self, *a, **k):
        return self._fn(self._inner, *a, **k)

    def __getattr__(self, name):
        return getattr(self._inner, name)


def attach_monitors(session, rec, cfg):
    broker = session.broker
    pf = broker.portfolios[session.portfolio_id]
    session.sim_engine = _EngineProxy(session.sim_engine, rec)

    inner_txn = pf.transact_asset

    def transact_asset(txn):
        rec.txns.append({"t": epoch(txn.dt), "ev": rec.cur, "seq": rec.tick(), "asset": txn.asset, "qty": txn.quantity,
                         "price": float(txn.price), "comm": float(txn.commission)})
        return inner_txn(txn)
    pf.transact_asset = transact_asset

    inner_update = broker.update

    def update(dt):
        rec.updates.append(epoch(dt))
        return inner_update(dt)
    broker.update = update

    pcm = session.qts.portfolio_construction_model
    dh = session.data_handler

    def sizer_call(inner, dt, weights):
        entry = {"t": epoch(dt), "ev": rec.cur, "weights": dict(weights), "result": None, "exc": None}
        try:
            entry["equity"] = float(broker.get_portfolio_total_equity(session.portfolio_id))
            entry["cash"] = float(broker.get_portfolio_cash_balance(session.portfolio_id))
            entry["prices"] = dict((a, float(dh.get_asset_latest_ask_price(dt, a))) for a in weights)
        except Exception as e:   # the seams themselves failed; the sizer will tell
            entry["seam_exc"] = repr(e)[:200]
        rec.sizer.append(entry)
        try:
            out = inner(dt, weights)
        except Exception as e:
            entry["exc"] = type(e).__name__
            raise
        entry["result"] = dict((a, v["quantity"]) for a, v in out.items())
        return out
    pcm.order_sizer = _CallProxy(pcm.order_sizer, sizer_call)

    def opt_call(inner, dt, initial_weights=None, **kw):
        out = inner(dt, initial_weights=initial_weights, **kw) if initial_weights is not None else inner(dt, **kw)
        rec.opt.append({"t": epoch(dt), "in": dict(initial_weights or {}), "out": dict(out)})
        return out
    pcm.optimiser = _CallProxy(pcm.optimiser, opt_call)

    if pcm.alpha_model is not None:
        def alpha_call(inner, dt):
            out = inner(dt)
            rec.alpha.append({"t": epoch(dt), "weights": dict(out)})
            return out
        pcm.alpha_model = _CallProxy(pcm.alpha_model, alpha_call)

    def pcm_call(inner, dt, stats=None):
        entry = {"t": epoch(dt), "ev": rec.cur, "seq": rec.tick(), "orders": None, "exc": None,
                 "universe": list(inner.universe.get_assets(dt)),
                 "held": dict((a, v["quantity"]) for a, v in
                              broker.get_portfolio_as_dict(session.portfolio_id).items())}
        rec.pcm.append(entry)
        if stats is not None:
            rec.live_stats = stats      # allocations recorded so far, also when the run fails later
        n_s, n_o, n_a = len(rec.sizer), len(rec.opt), len(rec.alpha)
        try:
            orders = inner(dt, stats=stats)
        except Exception as e:
            entry["exc"] = type(e).__name__
            entry["sizer"] = rec.sizer[n_s] if len(rec.sizer) > n_s else None
            raise
        entry["orders"] = [(o.asset, o.quantity, epoch(o.created_dt)) for o in orders]
        entry["alpha"] = rec.alpha[n_a]["weights"] if len(rec.alpha) > n_a else None
        if len(rec.sizer) > n_s:
            entry["sizer"] = rec.sizer[n_s]
        else:
            # the construction model did not consult the sizer: obtain the configured sizer's target for the
            # full weight vector ourselves (nothing has been submitted yet, so the state is the same)
            w = rec.opt[n_o]["out"] if len(rec.opt) > n_o else (entry["alpha"] or {})
            full = dict((a, 0.0) for a in sorted(set(entry["held"]) | set(entry["universe"])))
            full.update(w)
            try:
                out = pcm.order_sizer._inner(dt, full) if full else {}
                entry["sizer"] = {"t": epoch(dt), "weights": full, "exc": None, "bypassed": True,
                                  "result": dict((a, v["quantity"]) for a, v in out.items())}
            except Exception as e:
                entry["sizer"] = None
        return orders
    session.qts.portfolio_construction_model = _CallProxy(pcm, pcm_call)

    if session.signals is not None:
        for name, sig in session.signals.signals.items():
            inner_append = sig.append

            def append(asset, price, _inner=inner_append, _name=name):
                rec.appends.append((rec.cur, _name, asset, float(price)))
                return _inner(asset, price)
            sig.append = append


# ---------------------------------------------------------------------------
# one run
# ---------------------------------------------------------------------------

class Outcome(object):
    pass


def rb_assets(cfg):
    u = cfg["universe"]
    return list(u["assets"]) if u["kind"] in ("static", "leaving") else sorted(u["entries"])


_HEX = re.compile(r"[0-9a-f]{32}")


def mask_ids(s):
    return _HEX.sub("<id>", s)


def build_session(cfg, dirpath, shared_source=None, shared_inputs=None):
    """Construct the real session over the CSV directory.  Returns (session, signals, universe).

    shared_inputs (a dict) lets several sessions re-use the user-level input objects - the universe and the
    (stateless) alpha model with its weights dictionary - the way a user who builds them once would."""
    from qstrader.trading.backtest import BacktestTradingSession
    from qstrader.asset.universe.static import StaticUniverse
    from qstrader.asset.universe.dynamic import DynamicUniverse
    from qstrader.asset.equity import Equity
    from qstrader.data.daily_bar_csv import CSVDailyBarDataSource
    from qstrader.data.backtest_data_handler import BacktestDataHandler
    from qstrader.broker.fee_model.zero_fee_model import ZeroFeeModel
    from qstrader.broker.fee_model.percent_fee_model import PercentFeeModel
    from qstrader.signals.signals_collection import SignalsCollection
    from qstrader.signals.momentum import MomentumSignal
    from qstrader.signals.sma import SMASignal
    from qstrader.signals.vol import VolatilitySignal
    S, E = ts(cfg["start"]), ts(cfg["end"])
    u = cfg["universe"]
    if shared_inputs is not None and "universe" in shared_inputs:
        universe = shared_inputs["universe"]
    elif u["kind"] == "leaving":
        from qstrader.asset.universe.universe import Universe

        class LeavingUniverse(Universe):
            """harness stub: a universe whose members can leave (the shipped ones only grow)"""

            def __init__(self, assets, leave):
                self._assets = list(assets)
                self._leave = dict((a, ts(t)) for a, t in leave.items())

            def get_assets(self, dt):
                out = [a for a in self._assets if a not in self._leave or dt < self._leave[a]]
                if u.get("ret") == "gen":
                    return (a for a in out)           # a one-shot iterator
                if u.get("ret") == "tuple":
                    return tuple(out)
                return out
        universe = LeavingUniverse(u["assets"], u["leave"])
    elif u["kind"] == "static":
        universe = StaticUniverse(list(u["assets"]))
    else:
        tzs = u.get("tz") or {}
        import pandas as _pd
        absent = _pd.NaT if u.get("absent_as_nat") else None      # "no entry date" written as NaT instead of None

        def _entry(a, e):
            if e is None:
                return absent
            t_ = ts(e).tz_convert(tzs[a]) if tzs.get(a) else ts(e)
            if u.get("py_datetime") and e > -2000000000:
                return t_.to_pydatetime()          # a plain tz-aware datetime.datetime
            return t_
        if u.get("decoy"):
            # another study earlier in the same process listed the same symbols, none of them with an entry date yet
            earlier = DynamicUniverse(dict((a, absent) for a in u["entries"]))
            earlier.get_assets(S)
            earlier.get_assets(E)
        universe = DynamicUniverse(dict((a, _entry(a, e)) for a, e in u["entries"].items()))
        if u.get("cursor"):
            from qstrader.asset.universe.universe import Universe

            class ListingCalendarUniverse(Universe):
                """harness stub: DynamicUniverse semantics implemented with a forward-only cursor over the listing
                calendar - correct for every caller that asks in chronological order, as a backtest does"""

                def __init__(self, entries):
                    self._cal = sorted(((ts(e), a) for a, e in entries.items() if e is not None), key=lambda z: (z[0], z[1]))
                    self._i = 0
                    self._members = []

                def get_assets(self, dt):
                    while self._i < len(self._cal) and self._cal[self._i][0] <= dt:
                        self._members.append(self._cal[self._i][1])
                        self._i += 1
                    return list(self._members)
            universe = ListingCalendarUniverse(u["entries"])
    data_handler = None
    if shared_source is not None:
        data_handler = BacktestDataHandler(universe, data_sources=[shared_source])
    elif cfg["data_via"] != "env":
        syms = None
        if cfg["data_via"] == "handler_symbols":
            syms = sorted(f[:-4] for f in os.listdir(dirpath) if f.endswith(".csv"))
        src = CSVDailyBarDataSource(dirpath, Equity, adjust_prices=cfg.get("adjust", True), csv_symbols=syms)
        data_handler = BacktestDataHandler(universe, data_sources=[src])
    else:
        os.environ["QSTRADER_CSV_DATA_DIR"] = dirpath
    fee = cfg["fee"]
    if fee["kind"] in ("subzero", "subpct"):
        from .worlds.broker import make_sub_fee
        fee_model = make_sub_fee(fee)
    elif fee["kind"] == "tiered":
        from qstrader.broker.fee_model.fee_model import FeeModel

        class TieredByFillCount(FeeModel):
            def __init__(self):
                self.n = 0

            def _calc_commission(self, asset, quantity, consideration, broker=None):
                return (fee["c"] if self.n < fee["k"] else fee["c2"]) * abs(consideration)

            def _calc_tax(self, asset, quantity, consideration, broker=None):
                return 0.0

            def calc_total_cost(self, asset, quantity, consideration, broker=None):
                cost = self._calc_commission(asset, quantity, consideration, broker)
                if quantity != 0:
                    self.n += 1
                return cost
        fee_model = TieredByFillCount()
    else:
        fee_model = ZeroFeeModel() if fee["kind"] == "zero" else PercentFeeModel(commission_pct=fee["c"], tax_pct=fee["t"])
    a = cfg["alpha"]
    signals = None
    kwargs = {}
    if a["kind"] in ("topn", "sma", "invvol"):
        # the signals need a handler at construction; build one if the session would make its own
        if data_handler is None:
            src = CSVDailyBarDataSource(dirpath, Equity, adjust_prices=cfg.get("adjust", True))
            data_handler = BacktestDataHandler(universe, data_sources=[src])
        if a["kind"] == "topn":
            sigs = {"momentum": MomentumSignal(S, universe, lookbacks=[a["lookback"]])}
        elif a["kind"] == "sma":
            sigs = {"sma": SMASignal(S, universe, lookbacks=[a["short"], a["long"]])}
        else:
            sigs = {"vol": VolatilitySignal(S, universe, lookbacks=[a["lookback"]])}
        if cfg.get("signals_adjust") is not None:
            sig_src = CSVDailyBarDataSource(dirpath, Equity, adjust_prices=cfg["signals_adjust"])
            signals = SignalsCollection(sigs, BacktestDataHandler(universe, data_sources=[sig_src]))
        else:
            signals = SignalsCollection(sigs, data_handler)
    if shared_inputs is not None:
        shared_inputs.setdefault("universe", universe)
    if shared_inputs is not None and "alpha" in shared_inputs and signals is None:
        alpha = shared_inputs["alpha"]
    else:
        alpha = make_alpha(cfg, universe, signals, data_handler)
        if shared_inputs is not None and signals is None:
            shared_inputs["alpha"] = alpha
    if cfg["rebalance"] == "weekly" and cfg.get("weekday") is not None:
        kwargs["rebalance_weekday"] = cfg["weekday"]
    if cfg["long_only"]:
        kwargs["cash_buffer_percentage"] = cfg["cash_buffer"]
    else:
        kwargs["gross_leverage"] = cfg["leverage"]
    if cfg.get("both_sizer_kwargs"):
        # one settings dictionary shared between a long-only and a long/short run: the keyword the mode does not
        # use is there as well and must be ignored
        kwargs["cash_buffer_percentage"] = cfg["cash_buffer"]
        kwargs["gross_leverage"] = cfg["leverage"]
    session = BacktestTradingSession(
        S, E, universe, alpha, signals=signals, initial_cash=cfg["initial_cash"], rebalance=cfg["rebalance"],
        long_only=cfg["long_only"], fee_model=fee_model,
        burn_in_dt=(ts(cfg["burn_in"]) if cfg["burn_in"] is not None else None),
        data_handler=data_handler, portfolio_id=cfg.get("portfolio_id", "000001"), **kwargs)
    return session, signals, universe


class _UuidSeam(object):
    """`uuid` as seen by qstrader.execution.order: order ids drawn from a seeded PRNG.

    The random order ids are a source of nondeterminism the simulator must own (C18 states that no
    result may depend on them); every run gets its own id stream.
    """

    class _U(object):
        def __init__(self, n):
            self.hex = "%032x" % n

    def __init__(self, real, seed):
        import random
        self._real = real
        self._rng = random.Random(seed)

    def uuid4(self):
        return _UuidSeam._U(self._rng.getrandbits(128))

    def __getattr__(self, name):
        return getattr(self._real, name)


def run_session(cfg, market, monitors=True, dirpath=None, shared_source=None, hooks=None, uuid_seed=0,
                shared_inputs=None):
    """Run one real backtest.  Returns an Outcome with everything the oracles look at."""
    import gc
    from .core import apply_host_state
    apply_host_state(cfg)
    gc.collect()        # whatever an earlier, already dropped session left behind is reclaimed now, not "sometime"
    from qstrader.execution import order as _order_mod
    real_uuid = _order_mod.uuid
    _order_mod.uuid = _UuidSeam(real_uuid, uuid_seed)
    real_out = None
    if cfg.get("print_events"):
        import io
        import sys
        from qstrader import settings
        real_out = sys.stdout
        sys.stdout = io.StringIO()
        settings.PRINT_EVENTS = True
    try:
        return _run_session(cfg, market, monitors, dirpath, shared_source, hooks, shared_inputs)
    finally:
        if real_out is not None:
            import sys
            from qstrader import settings
            settings.PRINT_EVENTS = False
            sys.stdout = real_out
        _order_mod.uuid = real_uuid
        # collection timing of the cyclic garbage a session leaves behind would otherwise depend on the
        # allocation history of the process: collect at a fixed point so that a run is a function of its plan
        import gc
        gc.collect()


def _run_session(cfg, market, monitors, dirpath, shared_source, hooks, shared_inputs=None):
    own = dirpath is None and shared_source is None
    if own:
        dirpath = mk.scratch_dir(cfg.get("dir_suffix", ""))
        mk.write_market(market, dirpath)
    out = Outcome()
    out.rec = Rec()
    out.exc = None
    out.exc_at = None
    out.ctor_exc = None
    out.session = None
    try:
        try:
            session, signals, universe = build_session(cfg, dirpath, shared_source=shared_source,
                                                       shared_inputs=shared_inputs)
        except Exception as e:
            out.ctor_exc = (type(e).__name__, mask_ids(str(e))[:300])
            return out
        out.session = session
        if cfg.get("sleeve"):
            session.broker.subscribe_funds_to_account(cfg["sleeve"])
            session.broker.create_portfolio("SLEEVE", "cash sleeve")
            session.broker.subscribe_funds_to_portfolio("SLEEVE", cfg["sleeve"])
        if monitors:
            attach_monitors(session, out.rec, cfg)
        if hooks:
            hooks(session, out)
        try:
            session.run(results=False)
        except Exception as e:
            out.exc = (type(e).__name__, mask_ids(str(e))[:400])
            try:
                out.exc_at = epoch(session.broker.current_dt)
            except Exception:
                out.exc_at = None
        pf = session.broker.portfolios[session.portfolio_id]
        out.equity = [(epoch(t), float(v)) for t, v in session.equity_curve]
        conv = lambda lst: [dict((("Date", epoch(v)) if k == "Date" else (k, float(v))) for k, v in d.items())
                            for d in (lst or [])]
        out.allocs = conv(session.target_allocations)
        # what the construction model had recorded when the run stopped (equal to the above after a full run)
        out.allocs_live = conv(out.rec.live_stats["target_allocations"]) if out.rec.live_stats else out.allocs
        out.history = [(epoch(e.dt), e.type, mask_ids(e.description), float(e.debit), float(e.credit),
                        float(e.balance)) for e in pf.history]
        out.cash = float(pf.cash)
        out.holdings = dict((a, v["quantity"]) for a, v in pf.portfolio_to_dict().items())
        return out
    finally:
        if own:
            shutil.rmtree(dirpath, ignore_errors=True)

"""Synthetic daily-bar markets with injected data faults, and their CSV rendering.

A market is JSON-serialisable:
  {"adjust": bool, "assets": {"AAA": {"rows": [[epoch_day, open, high, low, close, adj, volume], ...]}}}
Rows are in *file order* (possibly shuffled); a cell may be None (empty in the CSV).
Prices carry at most four decimals so that CSV parsing is exact (single division by 10^4).
"""
import math
import os

from .core import DAY
from .calendar_ref import is_bday, ymd

# symbols that are prefixes / near-duplicates of one another, mixed with plain ones
SYMS = ["AAA", "AAB", "AA", "AA_1", "BRK.B", "spy", "CCC", "B", "Eee", "FFF"]


def r4(x):
    return round(x, 4)


def gen_asset_rows(rng, day0, n_bdays, style="ugly", low_priced=False, vol=None, late=0, weekend_rows=False,
                   jump_p=0.0):
    """Dense rows for business days day0.. (n_bdays of them), starting `late` business days in."""
    if vol is None:
        vol = rng.choice([0.005, 0.01, 0.02, 0.04])
    if low_priced:
        p = rng.uniform(0.5, 3.0)
    else:
        p = math.exp(rng.uniform(math.log(2.0), math.log(800.0)))
    rows = []
    d = day0
    k = 0
    while k < n_bdays:
        if is_bday(d) or (weekend_rows and rng.random() < 0.15):
            if jump_p and rng.random() < jump_p:
                p = p * rng.choice([0.15, 0.3, 0.5, 2.0, 3.5, 6.0])        # crash or melt-up overnight
            if k >= late or not is_bday(d):
                o = p * math.exp(rng.gauss(0.0, vol / 2))
                c = o * math.exp(rng.gauss(0.0, vol))
                if style == "round":
                    o = max(1.0, float(round(o)))
                    c = max(1.0, float(round(c)))
                    if rng.random() < 0.3:
                        o += 0.5
                elif style == "cents":
                    o, c = round(o, 2), round(c, 2)
                else:
                    o, c = r4(o), r4(c)
                o = max(o, 0.01)
                c = max(c, 0.01)
                hi = r4(max(o, c) * (1.0 + abs(rng.gauss(0.0, vol / 3))))
                lo = r4(min(o, c) * (1.0 - abs(rng.gauss(0.0, vol / 3))))
                rows.append([d, o, hi, lo, c, c, int(rng.randrange(1000, 10 ** 7))])
                p = c
            else:
                p = p * math.exp(rng.gauss(0.0, vol))
            if is_bday(d):
                k += 1
        d += 1
    return rows


def apply_adjustment(rng, rows, mode):
    """Set the Adj Close column: 'same' (= Close), 'steps' (split/dividend style factor steps)."""
    if mode == "same" or not rows:
        return
    n = len(rows)
    cuts = sorted(rng.sample(range(n), min(n, rng.randrange(1, 3))))
    factors = []
    f = 1.0
    for _ in cuts:
        f *= rng.choice([0.5, 0.8, 0.9, 0.95, 0.98, 0.995])
        factors.append(f)
    # rows sorted by day at this point; earlier rows get the smaller cumulative factor
    for i, row in enumerate(rows):
        k = sum(1 for c in cuts if i < c)
        fac = factors[k - 1] if k > 0 else 1.0
        row[5] = r4(row[4] * fac) if row[4] is not None else None
        if row[5] is not None and row[5] <= 0:
            row[5] = 0.0001


def inject_faults(rng, rows, faults, adjust, ctx_faults=None):
    """In-place data faults on one asset's (day-sorted) rows. Returns the list of fault kinds applied."""
    applied = []
    if "gap_days" in faults and len(rows) > 3:
        n = rng.randrange(1, max(2, len(rows) // 4))
        for _ in range(n):
            if len(rows) > 2:
                i = rng.randrange(1, len(rows))   # never the first row: late_start is its own fault
                del rows[i]
        applied.append("gap_days")
    if "halt" in faults and len(rows) > 8:
        # a trading halt: one or two contiguous stretches of 5..12 bars are missing (never the first row)
        for _ in range(rng.choice([1, 1, 2])):
            if len(rows) > 8:
                srt = sorted(range(len(rows)), key=lambda i_: rows[i_][0])
                k0 = rng.randrange(1, max(2, len(rows) - 5))
                gone = set(srt[k0:k0 + rng.randrange(5, 13)])
                rows[:] = [r_ for i_, r_ in enumerate(rows) if i_ not in gone]
        applied.append("halt")
    if "zero_bar" in faults and len(rows) > 2:
        # a no-trade day written as a bar of zeros by the vendor (never the first row)
        srt = sorted(range(len(rows)), key=lambda i_: rows[i_][0])
        for i_ in rng.sample(srt[1:], min(len(srt) - 1, rng.choice([1, 1, 2]))):
            rows[i_][1:7] = [0.0, 0.0, 0.0, 0.0, 0.0, 0]
        applied.append("zero_bar")
    if "empty_cell" in faults and rows:
        n = rng.randrange(1, max(2, len(rows) // 5 + 1))
        for _ in range(n):
            i = rng.randrange(0, len(rows))
            kinds = ["open", "close_adj"]
            if not adjust:
                kinds.append("adj")
            else:
                kinds.append("adj_on")
            kind = rng.choice(kinds)
            if kind == "open":
                rows[i][1] = None
            elif kind == "close_adj":
                rows[i][4] = None
                rows[i][5] = None
            elif kind == "adj":
                rows[i][5] = None
            else:
                rows[i][5] = None   # under adjustment: both observations of that day are missing
            applied.append("empty_cell:" + kind)
    if "shuffle_rows" in faults and len(rows) > 1:
        rng.shuffle(rows)
        applied.append("shuffle_rows")
    return applied


def gen_market(rng, n_assets, day0, n_bdays, adjust=True, faults=(), styles=None, low_priced_p=0.2,
               late_p=0.0, weekend_rows=False, adj_modes=("same", "same", "steps"), jump_p=0.0, syms=None):
    assets = {}
    applied = {}
    for i in range(n_assets):
        sym = (syms or SYMS)[i]
        style = rng.choice(styles or ["ugly", "ugly", "round", "cents"])
        late = 0
        if "late_start" in faults and rng.random() < max(late_p, 0.4) and n_bdays > 2:
            late = rng.randrange(1, max(2, n_bdays // 2))
        rows = gen_asset_rows(rng, day0, n_bdays, style=style, low_priced=rng.random() < low_priced_p,
                              late=late, weekend_rows=weekend_rows, jump_p=jump_p)
        if not rows:
            rows = gen_asset_rows(rng, day0, n_bdays, style=style)
            late = 0
        apply_adjustment(rng, rows, rng.choice(adj_modes))
        ap = inject_faults(rng, rows, [f for f in faults if f != "late_start"], adjust)
        if late:
            ap.append("late_start")
        # volumes: usually positive; sometimes zero on some bars, or zero until the vendor "starts reporting"
        vm = rng.random()
        srt = sorted(rows, key=lambda r_: r_[0])
        if vm < 0.12:
            for r_ in rows:
                if rng.random() < 0.3:
                    r_[6] = 0
        elif vm < 0.22 and len(rows) > 1:
            k_ = rng.randrange(1, len(rows))
            for r_ in srt[:k_]:
                r_[6] = 0
        assets[sym] = {"rows": rows}
        if rng.random() < 0.3:
            # the header names the columns: any order, optional columns may be absent
            keep = [0, 1, 4, 5] + [i for i in (2, 3, 6) if rng.random() < 0.5]
            rng.shuffle(keep)
            assets[sym]["col_order"] = keep
        applied[sym] = ap
    return {"adjust": adjust, "assets": assets, "applied": applied, "int_cells": rng.random() < 0.3}


INT_CELLS = [False]


def fmt(x):
    if x is None:
        return ""
    if isinstance(x, int):
        return str(x)
    if INT_CELLS[0] and float(x) == int(x):
        return str(int(x))          # "100" rather than "100.0": pandas then infers an integer column
    return repr(float(x))


def date_str(d):
    y, m, dd = ymd(d)
    return "%04d-%02d-%02d" % (y, m, dd)


COLS = ["Date", "Open", "High", "Low", "Close", "Adj Close", "Volume"]


def csv_text(rows, order=None):
    """order: a permutation / subset of column indexes (Date, Open, Close and Adj Close always present)."""
    order = order or list(range(7))
    lines = [",".join(COLS[i] for i in order)]
    for r in rows:
        cells = [date_str(r[0])] + [fmt(x) for x in r[1:]]
        lines.append(",".join(cells[i] for i in order))
    return "\n".join(lines) + "\n"


def write_market(market, dirpath, only=None):
    os.makedirs(dirpath, exist_ok=True)
    INT_CELLS[0] = bool(market.get("int_cells"))
    for sym, a in sorted(market["assets"].items()):
        if only is not None and sym not in only:
            continue
        if a.get("removed"):
            continue
        with open(os.path.join(dirpath, sym + ".csv"), "w") as f:
            f.write(csv_text(a["rows"], a.get("col_order")))
    for name, rows in sorted((market.get("extra_files") or {}).items()):
        # another listing next to a universe asset (ABC.L.csv beside ABC.csv): its data belong to nobody
        with open(os.path.join(dirpath, name + ".csv"), "w") as f:
            f.write(csv_text(rows))


DIR_SUFFIXES = ["", "", "", "", "", "[2020]", " [daily] bars", "*?", "{a,b}", "%s", "~"]


def scratch_dir(suffix=""):
    """A fresh directory; `suffix` lets a plan ask for a name with blanks or pattern characters in it."""
    import tempfile
    base = "/dev/shm" if os.path.isdir("/dev/shm") else None
    return tempfile.mkdtemp(prefix="qsim-", suffix=suffix or "", dir=base)

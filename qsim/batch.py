"""Batch driver: seeded search over many simulated runs on all cores, determinism self-check,
minimisation, replay files, known findings, evidence.

Exit codes: 0 held everywhere explored; 1 at least one unlisted violation; 2 harness error.
"""
import concurrent.futures as cf
import faulthandler
import importlib
import json
import multiprocessing
import os
import subprocess
import sys
import time
from collections import Counter

from . import boot
from .boot import HarnessError
from .core import run_seed, rng_for, jdump, finish_plan, HOST_PLAIN

# property -> list of (world, share of the budget, chunk size)
REGISTRY = {}
WORLD_MODULES = {
    "broker": "qsim.worlds.broker",
    "data": "qsim.worlds.data",
    "clock": "qsim.worlds.clock",
    "signal": "qsim.worlds.signal",
    "session": "qsim.worlds.session",
    "pair": "qsim.worlds.pair",
    "repeat": "qsim.worlds.repeat",
    "rebal": "qsim.worlds.rebal",
}

PROP_WORLDS = {
    "C01": [("broker", 1.0)],
    "C02": [("broker", 1.0)],
    "C03": [("broker", 1.0)],
    "C04": [("broker", 1.0)],
    "C05": [("broker", 1.0)],
    "C15": [("broker", 1.0)],
    "C06": [("data", 1.0)],
    "C12": [("clock", 0.7), ("session", 0.3)],
    "C13": [("clock", 0.7), ("session", 0.3)],
    "C16": [("signal", 0.5), ("session", 0.5)],
    "C07": [("pair", 1.0)],
    "C08": [("session", 1.0)],
    "C14": [("session", 1.0)],
    "C18": [("repeat", 1.0)],
    "C19": [("session", 0.7), ("rebal", 0.3)],
    "C09": [("rebal", 0.6), ("session", 0.4)],
    "C10": [("rebal", 0.5), ("session", 0.5)],
    "C11": [("rebal", 0.5), ("session", 0.5)],
}

LEVELS = {
    "C06": "fault_enumeration", "C07": "fault_enumeration", "C15": "fault_enumeration",
}

DEFAULT_BUDGET = {"quick": 30.0, "thorough": 420.0}
PROP_BUDGET = {("C18", "quick"): 30.0}


def world(name):
    return importlib.import_module(WORLD_MODULES[name])


def level_of(prop):
    return LEVELS.get(prop, "exploration")


# ---------------------------------------------------------------------------
# worker side
# ---------------------------------------------------------------------------

def _one(wname, prop, master, i, tier, trace=False):
    """One run.  Worlds with ISOLATE = "fork" execute it in a forked child, so that module-level state a run
    leaves behind in the code under test can never reach the next run: a run is a function of its plan."""
    w = world(wname)
    if getattr(w, "ISOLATE", None) == "fork" and not trace and os.environ.get("VERIF_NO_FORK") != "1":
        from .isolate import forked
        from .core import Ctx

        def job():
            plan, ctx = _one_here(wname, prop, master, i, tier, False)
            return plan, ctx.result()
        from .isolate import RunTimeout
        try:
            plan, res = forked(job)
        except RunTimeout as e:
            # bounded liveness: a run over a valid plan that does not come back is a violation of the property being
            # judged (never exit 0), reported with the plan as it was generated
            seed = run_seed(master, prop, wname, i)
            plan = w.generate(rng_for(seed), (prop,), tier)
            plan["run_seed"], plan["index"] = seed, i
            finish_plan(plan, seed)
            return plan, timeout_ctx(prop, str(e))
        return plan, Ctx.rebuild((prop,), res, [])
    return _one_here(wname, prop, master, i, tier, trace)


TIMEOUT_ORACLE = "run_did_not_terminate_within_the_wall_limit"


def timeout_ctx(prop, why):
    from .core import Ctx
    v = {"property": prop, "oracle": TIMEOUT_ORACLE, "step": -1, "detail": {"why": why}, "sig": TIMEOUT_ORACLE}
    res = {"violations": [v], "faults": {}, "probes": {"run_killed_at_wall_limit": 1}, "sigs": [], "bigrams": [],
           "digest": "timeout", "judged": 1, "sim_seconds": 0, "events": 0}
    return Ctx.rebuild((prop,), res, [])


def _one_here(wname, prop, master, i, tier, trace=False):
    w = world(wname)
    seed = run_seed(master, prop, wname, i)
    rng = rng_for(seed)
    plan = w.generate(rng, (prop,), tier)
    plan["run_seed"] = seed
    plan["index"] = i
    finish_plan(plan, seed)
    ctx = w.execute(plan, (prop,), trace=trace)
    return plan, ctx


def work(args):
    """Execute a chunk of runs; returns aggregated, picklable statistics."""
    wname, prop, master, indices, tier, det_check = args
    from .isolate import RUN_TIMEOUT_S
    faulthandler.dump_traceback_later(max(120, 30 * len(indices)) + int(2 * RUN_TIMEOUT_S), exit=True)
    try:
        boot.boot()
        agg = {
            "world": wname, "runs": 0, "faults": Counter(), "probes": Counter(), "sigs": set(),
            "bigrams": set(), "judged": 0, "sim_seconds": 0, "events": 0, "violations": [],
            "digests": {}, "nondeterministic": [], "samples": [], "nontrivial_runs": 0,
            "errors": [],
        }
        pre = {}
        wmod = world(wname)
        if hasattr(wmod, "execute_chunk"):
            # worlds that amortise child interpreters over a chunk
            try:
                plans = []
                for i in indices:
                    seed = run_seed(master, prop, wname, i)
                    pl = wmod.generate(rng_for(seed), (prop,), tier)
                    pl["run_seed"] = seed
                    pl["index"] = i
                    finish_plan(pl, seed)
                    plans.append(pl)
                ctxs = wmod.execute_chunk(plans, (prop,))
                pre = dict((i, (pl, cx)) for i, pl, cx in zip(indices, plans, ctxs))
            except Exception as e:
                import traceback
                agg["errors"].append({"index": indices[0], "exc": repr(e)[:300],
                                      "tb": traceback.format_exc()[-1500:]})
                indices = []
        for n, i in enumerate(indices):
            try:
                plan, ctx = pre[i] if i in pre else _one(wname, prop, master, i, tier)
            except Exception as e:  # a crash of the harness itself, not a verdict
                import traceback
                agg["errors"].append({"index": i, "exc": repr(e)[:300],
                                      "tb": traceback.format_exc()[-1500:]})
                continue
            r = ctx.result()
            agg["runs"] += 1
            agg["faults"].update(r["faults"])
            agg["probes"].update(r["probes"])
            for hk, hv in HOST_PLAIN.items():
                if plan.get(hk, hv) != hv:
                    agg["faults"]["host_state:%s=%s" % (hk, plan[hk])] += 1
            agg["judged"] += r["judged"]
            agg["sim_seconds"] += r["sim_seconds"]
            agg["events"] += r["events"]
            if r["judged"] > 0:
                agg["nontrivial_runs"] += 1
                agg["sigs"].update(r["sigs"])
                agg["bigrams"].update(r["bigrams"])
            if n < 1 and len(agg["samples"]) < 1:
                agg["samples"].append(_sample(plan))
            timed_out = any(v["oracle"] == TIMEOUT_ORACLE for v in r["violations"])
            if n < det_check and not timed_out:
                if getattr(wmod, "DETERMINISM", "full") == "plan":
                    seed2 = run_seed(master, prop, wname, i)
                    plan2 = wmod.generate(rng_for(seed2), (prop,), tier)
                    plan2["run_seed"], plan2["index"] = seed2, i
                    finish_plan(plan2, seed2)
                    agg["digests"][i] = "plan:" + __import__("hashlib").sha256(jdump(plan).encode()).hexdigest()
                    if jdump(plan2) != jdump(plan):
                        agg["nondeterministic"].append(i)
                else:
                    agg["digests"][i] = r["digest"]
                    plan2, ctx2 = _one(wname, prop, master, i, tier)
                    if ctx2.digest() != r["digest"] or jdump(_strip(plan2)) != jdump(_strip(plan)):
                        agg["nondeterministic"].append(i)
            for v in r["violations"]:
                agg["violations"].append({"index": i, "seed": plan["run_seed"], "violation": v,
                                          "plan": plan})
            if timed_out:
                break          # one run that had to be killed is enough for this chunk
        agg["faults"] = dict(agg["faults"])
        agg["probes"] = dict(agg["probes"])
        return agg
    finally:
        faulthandler.cancel_dump_traceback_later()


def _strip(plan):
    return plan


def _sample(plan):
    s = json.loads(jdump(plan))
    # keep samples readable: cap long lists
    for k, v in list(s.items()):
        if isinstance(v, list) and len(v) > 25:
            s[k] = v[:25] + ["... %d more" % (len(v) - 25)]
    return _cap(s)


def _cap(o, depth=0):
    if isinstance(o, dict):
        out = {}
        for n, (k, v) in enumerate(sorted(o.items())):
            if n >= 40:
                out["..."] = "%d more keys" % (len(o) - 40)
                break
            out[k] = _cap(v, depth + 1)
        return out
    if isinstance(o, list):
        if len(o) > 30:
            return [_cap(x, depth + 1) for x in o[:30]] + ["... %d more" % (len(o) - 30)]
        return [_cap(x, depth + 1) for x in o]
    return o


# ---------------------------------------------------------------------------
# known findings
# ---------------------------------------------------------------------------

def load_known():
    path = os.path.join(boot.VERIF_DIR, "known_findings.json")
    try:
        with open(path) as f:
            data = json.load(f)
    except FileNotFoundError:
        return []
    return data.get("findings", [])


def match_known(v, known):
    for k in known:
        if k.get("status") != "open":
            continue
        if k.get("property") != v["property"]:
            continue
        if k.get("oracle") and k["oracle"] != v["oracle"]:
            continue
        m = k.get("sig_prefix")
        if m and not str(v.get("sig", "")).startswith(m):
            continue
        return k
    return None


# ---------------------------------------------------------------------------
# driver
# ---------------------------------------------------------------------------

def _fresh_digests(wname, prop, master, indices, tier, hashseed):
    env = dict(os.environ)
    env["PYTHONHASHSEED"] = str(hashseed)
    env["VERIF_SEED"] = str(master)
    cmd = [sys.executable, "-m", "qsim.cli", "digest", prop, wname, tier, ",".join(map(str, indices))]
    out = subprocess.run(cmd, cwd=boot.VERIF_DIR, env=env, capture_output=True, text=True, timeout=600)
    if out.returncode != 0:
        raise HarnessError("fresh-interpreter digest run failed: %s" % out.stderr[-800:])
    return json.loads(out.stdout.strip().splitlines()[-1])


from .isolate import RUN_TIMEOUT_S  # noqa: E402


def run_check(prop, tier, budget=None, max_runs=None, workers=None, quiet=False):
    boot.boot()
    t_start = time.monotonic()
    master = boot.master_seed()
    if budget is None:
        b = os.environ.get("VERIF_BUDGET_S")
        budget = float(b) if b else PROP_BUDGET.get((prop, tier), DEFAULT_BUDGET[tier])
    if workers is None:
        workers = int(os.environ.get("VERIF_WORKERS", "0")) or min(16, os.cpu_count() or 1)
    plan_worlds = PROP_WORLDS[prop]
    known = load_known()
    say = (lambda *a: None) if quiet else (lambda *a: print(*a, flush=True))
    say("check %s tier=%s seed=%d budget=%.0fs workers=%d repo=%s" % (
        prop, tier, master, budget, workers, boot.repo_dir()))

    totals = {"runs": 0, "faults": Counter(), "probes": Counter(), "sigs": {}, "bigrams": {},
              "judged": 0, "sim_seconds": 0, "events": 0, "violations": [], "nondet": [],
              "samples": [], "per_world": {}, "nontrivial_runs": 0, "errors": [], "digests": {}}
    ctxm = multiprocessing.get_context("fork")
    harness_error = None
    with cf.ProcessPoolExecutor(max_workers=workers, mp_context=ctxm) as pool:
        for wname, share in plan_worlds:
            w = world(wname)
            chunk = getattr(w, "CHUNK", {}).get(tier, 20) if isinstance(getattr(w, "CHUNK", None), dict) \
                else 20
            deadline = time.monotonic() + budget * share
            next_i = 0
            pending = set()
            wt = {"runs": 0, "chunks": 0}
            limit = max_runs if max_runs is not None else 10 ** 9
            first = True
            while True:
                now = time.monotonic()
                while len(pending) < workers * getattr(w, "PENDING_FACTOR", 2) and now < deadline and next_i < limit:
                    n = min(chunk, limit - next_i)
                    if first:
                        n = min(n, max(2, chunk // 4))
                    idx = list(range(next_i, next_i + n))
                    next_i += n
                    det = 1 if (wt["chunks"] % 4 == 0) else 0
                    wt["chunks"] += 1
                    pending.add(pool.submit(work, (wname, prop, master, idx, tier, det)))
                    if wt["chunks"] >= workers:
                        first = False
                if not pending:
                    break
                try:
                    done, pending = cf.wait(pending, timeout=300 + 2 * RUN_TIMEOUT_S, return_when=cf.FIRST_COMPLETED)
                except Exception as e:
                    harness_error = "wait failed: %r" % (e,)
                    break
                if not done:
                    harness_error = "no chunk finished within %d s (hung worker?)" % (300 + 2 * RUN_TIMEOUT_S)
                    break
                for fut in done:
                    try:
                        agg = fut.result()
                    except Exception as e:
                        harness_error = "worker died: %r" % (e,)
                        continue
                    wt["runs"] += agg["runs"]
                    totals["runs"] += agg["runs"]
                    totals["faults"].update(agg["faults"])
                    totals["probes"].update(agg["probes"])
                    totals["sigs"].setdefault(wname, set()).update(agg["sigs"])
                    totals["bigrams"].setdefault(wname, set()).update(agg["bigrams"])
                    totals["judged"] += agg["judged"]
                    totals["sim_seconds"] += agg["sim_seconds"]
                    totals["events"] += agg["events"]
                    totals["nontrivial_runs"] += agg["nontrivial_runs"]
                    totals["violations"].extend(agg["violations"])
                    if any(x["violation"]["oracle"] == TIMEOUT_ORACLE for x in agg["violations"]):
                        deadline = time.monotonic()          # runs are being killed at the wall limit: stop submitting
                    totals["nondet"].extend((wname, i) for i in agg["nondeterministic"])
                    totals["errors"].extend(agg["errors"])
                    for i, d in agg["digests"].items():
                        totals["digests"][(wname, i)] = d
                    if len(totals["samples"]) < 3 and agg["samples"]:
                        totals["samples"].append({"world": wname, "plan": agg["samples"][0]})
                if harness_error:
                    break
            totals["per_world"][wname] = wt
            if harness_error:
                break
    if harness_error:
        print("HARNESS-ERROR %s" % harness_error, flush=True)
        return 2
    if totals["errors"]:
        e = totals["errors"][0]
        if not totals["violations"]:
            print("HARNESS-ERROR run %s crashed in the harness: %s\n%s" % (e["index"], e["exc"], e["tb"]),
                  flush=True)
            return 2
        # reproducible violations were found as well: they are replayed in a fresh interpreter before being
        # reported, so they stand on their own; the crash is reported alongside
        print("HARNESS-WARNING %d run(s) crashed in the harness (first: run %s: %s)" % (
            len(totals["errors"]), e["index"], e["exc"]), flush=True)
    if totals["runs"] == 0:
        print("HARNESS-ERROR no run completed", flush=True)
        return 2

    # --- determinism: same seed in a fresh interpreter under two other hash seeds ------------
    det_checked = 0
    hash_notes = []
    if totals["nondet"]:
        print("HARNESS-ERROR non-deterministic runs (same seed, same process): %s" % totals["nondet"][:5],
              flush=True)
        return 2
    by_world = {}
    for (wname, i), d in sorted(totals["digests"].items()):
        by_world.setdefault(wname, []).append((i, d))
    for wname, lst in by_world.items():
        lst = lst[: (6 if tier == "quick" else 24)]
        idx = [i for i, _ in lst]
        for hs in ((1, 4242) if tier == "thorough" else (4242,)):
            try:
                got = _fresh_digests(wname, prop, master, idx, tier, hs)
            except HarnessError as e:
                print("HARNESS-ERROR %s" % e, flush=True)
                return 2
            for i, d in lst:
                det_checked += 1
                if got.get(str(i)) != d:
                    # every check and every replay runs under PYTHONHASHSEED=0, and the same seed executed twice
                    # under it agreed (checked above): the runs are deterministic and replayable. A different
                    # event log under another hash seed means the code under test (or the harness) orders
                    # something by string hash - C18's business for backtests, not a reason to fail this check.
                    hash_notes.append("%s/%d (PYTHONHASHSEED=%s)" % (wname, i, hs))

    if hash_notes:
        print("HARNESS-NOTE event log differs under another string-hash seed for run(s) %s" % ", ".join(hash_notes[:4]),
              flush=True)
    # --- violations: minimise, replay in a fresh interpreter, report ---------------------------
    from . import shrink
    reported = []
    known_lines = []
    seen = set()
    n_viol = 0
    exit_code = 0
    unreproduced = []
    pending_error = False
    for item in sorted(totals["violations"], key=lambda x: (x["violation"]["sig"], x["index"])):
        v = item["violation"]
        key = (v["property"], v["oracle"], str(v.get("sig")))
        if key in seen:
            continue
        seen.add(key)
        if len(seen) > 6:
            break
        wname = item["plan"]["world"]
        w = world(wname)
        k = match_known(v, known)
        mplan, mv, execs = shrink.minimise(w, item["plan"], (prop,), v,
                                           max_execs=400, max_seconds=60.0 if k is None else 10.0)
        path = write_replay(prop, item, mplan, mv, execs)
        ok = replay_fresh(path)
        if not ok and getattr(w, "OBSERVED_IS_VIOLATION", False):
            # C18: the property under test is determinism itself. A difference between two executions of the
            # same plan is a violation the moment it is observed, even when it depends on allocator / collector
            # state that a later process does not re-create. Try the unminimised plan a few times, then report
            # it as observed, with the replay marked accordingly.
            attempts = 1
            path = write_replay(prop, item, item["plan"], v, 0)
            mplan, mv = item["plan"], v
            for _ in range(3):
                attempts += 1
                ok = replay_fresh(path)
                if ok:
                    break
            if not ok:
                mark_replay_observed_only(path, attempts, v)
                print("NOTE violation %s/%s (seed %d) was observed once and did not recur in %d fresh replays "
                      "(allocator/collector dependent); reported as observed" % (
                          v["property"], v["oracle"], item["seed"], attempts), flush=True)
                ok = True
        if not ok and mplan is not item["plan"]:
            # the minimised plan does not replay: fall back to the plan as it was found
            path = write_replay(prop, item, item["plan"], v, 0)
            mplan, mv = item["plan"], v
            ok = replay_fresh(path)
        if not ok:
            if exit_code == 1:
                # other violations of this batch did replay and are reported; this one is not believed
                print("HARNESS-WARNING violation %s/%s (seed %d) did not reproduce in a fresh interpreter and is not "
                      "reported; replay kept at %s" % (v["property"], v["oracle"], item["seed"], path), flush=True)
                unreproduced.append(path)
                continue
            print("HARNESS-ERROR violation %s/%s (seed %d) did not reproduce in a fresh interpreter; "
                  "replay kept at %s" % (v["property"], v["oracle"], item["seed"], path), flush=True)
            pending_error = True
            continue
        k = match_known(mv, known) or k
        if k is not None:
            known_lines.append("KNOWN-FINDING: property=%s %s [%s] replay=%s" % (
                prop, k.get("what", v["oracle"]), k.get("id", "?"), path))
        else:
            n_viol += 1
            exit_code = 1
            reported.append((path, mv))
            print("VIOLATION property=%s replay=%s" % (prop, path), flush=True)
            print("  oracle=%s step=%s seed=%d minimised_ops=%s detail=%s" % (
                mv["oracle"], mv["step"], item["seed"], _plan_size(mplan), jdump(mv["detail"])[:600]),
                flush=True)
    for line in known_lines:
        print(line, flush=True)
    if pending_error and exit_code == 0:
        return 2          # nothing that was found could be replayed: a harness problem, not a verdict
    if pending_error:
        print("HARNESS-WARNING a violation that did not replay was dropped; the reported ones did replay", flush=True)

    wall = time.monotonic() - t_start
    write_evidence(prop, tier, master, totals, wall, n_viol, len(known_lines), det_checked, budget, workers)
    say("done %s: runs=%d judged=%d distinct_states=%d violations=%d known=%d wall=%.1fs" % (
        prop, totals["runs"], totals["judged"], sum(len(s) for s in totals["sigs"].values()),
        n_viol, len(known_lines), wall))
    return exit_code


def _plan_size(plan):
    for k in ("ops",):
        if isinstance(plan.get(k), list):
            return len(plan[k])
    return "-"


def write_replay(prop, item, mplan, mv, execs):
    d = os.environ.get("VERIF_REPLAY_DIR") or os.path.join(boot.VERIF_DIR, "replays")
    os.makedirs(d, exist_ok=True)
    path = os.path.join(d, "%s-%d.json" % (prop, item["seed"]))
    w = world(mplan["world"])
    if getattr(w, "ISOLATE", None) == "fork":
        from .isolate import forked
        from .core import Ctx

        def job():
            c = w.execute(mplan, (prop,), trace=True)
            return c.result(), c.trace
        from .isolate import RunTimeout
        try:
            res_, lines_ = forked(job)
            ctx = Ctx.rebuild((prop,), res_, lines_, trace=True)
        except RunTimeout as e:
            ctx = timeout_ctx(prop, str(e))
    else:
        ctx = w.execute(mplan, (prop,), trace=True)
    doc = {
        "property": prop,
        "world": mplan["world"],
        "run_seed": item["seed"],
        "index": item["index"],
        "master_seed": boot.master_seed(),
        "expected": {"property": mv["property"], "oracle": mv["oracle"], "step": mv["step"],
                     "sig": mv.get("sig"), "detail": json.loads(jdump(mv["detail"]))},
        "expected_digest": ctx.digest(),
        "minimised_plan": mplan,
        "original_plan": item["plan"],
        "original_violation": json.loads(jdump(item["violation"])),
        "shrink_executions": execs,
        "trace": ctx.trace[-200:] if ctx.trace else [],
        "repo_commit": boot.repo_commit(),
        "qstrader_file": boot.qstrader_file(),
        "pythonhashseed": os.environ.get("PYTHONHASHSEED", "0"),
    }
    with open(path, "w") as f:
        f.write(json.dumps(json.loads(jdump(doc)), indent=1, sort_keys=True))
    return path


def mark_replay_observed_only(path, attempts, v):
    with open(path) as f:
        doc = json.load(f)
    doc["reproduced_in_fresh_interpreter"] = False
    doc["fresh_replay_attempts"] = attempts
    doc["observed_violation"] = json.loads(jdump(v))
    with open(path, "w") as f:
        f.write(json.dumps(doc, indent=1, sort_keys=True))


def replay(path, verbose=True):
    """Re-execute a replay file; returns 1 if the recorded violation reproduces, else 0."""
    boot.boot()
    with open(path) as f:
        doc = json.load(f)
    w = world(doc["world"])
    prop = doc["property"]
    exp = doc["expected"]
    if exp.get("oracle") == TIMEOUT_ORACLE:
        # the recorded violation is "does not terminate": execute in a child under the same wall limit
        from .isolate import forked, RunTimeout
        try:
            forked(lambda: w.execute(doc["minimised_plan"], (prop,)).result())
            ctx = None
        except RunTimeout as e:
            ctx = timeout_ctx(prop, str(e))
        if ctx is None:
            if verbose:
                print("replay: the run terminated this time; recorded violation not reproduced")
            return 0
        if verbose:
            print("VIOLATION property=%s replay=%s" % (prop, path))
            print("  reproduced: oracle=%s digest_matches=True" % TIMEOUT_ORACLE)
        return 1
    ctx = w.execute(doc["minimised_plan"], (prop,), trace=True)
    for v in ctx.violations:
        if v["property"] == exp["property"] and v["oracle"] == exp["oracle"]:
            same_digest = (ctx.digest() == doc.get("expected_digest"))
            if verbose:
                print("VIOLATION property=%s replay=%s" % (prop, path))
                print("  oracle=%s step=%s digest_matches=%s detail=%s" % (
                    v["oracle"], v["step"], same_digest, jdump(v["detail"])[:800]))
            return 1
    if verbose:
        print("replay %s: recorded violation %s/%s did not occur (violations now: %s)" % (
            path, exp["property"], exp["oracle"], [(v["property"], v["oracle"]) for v in ctx.violations]))
    return 0


def replay_fresh(path):
    env = dict(os.environ)
    # a fresh interpreter under the hash seed the violation was found with (C18 varies it on purpose)
    env["PYTHONHASHSEED"] = os.environ.get("PYTHONHASHSEED", "0")
    out = subprocess.run([sys.executable, "-m", "qsim.cli", "replay", path], cwd=boot.VERIF_DIR, env=env,
                         capture_output=True, text=True, timeout=600)
    return out.returncode == 1 and "digest_matches=True" in out.stdout


# ---------------------------------------------------------------------------
# evidence
# ---------------------------------------------------------------------------

REAL_STUB = {
    "broker": {"real": ["SimulatedBroker", "Portfolio", "PositionHandler", "Position", "Transaction",
                        "PortfolioEvent", "Order", "SimulatedExchange", "ZeroFeeModel", "PercentFeeModel"],
               "stub": ["QuoteBook data handler (bid != ask, piecewise constant; its own mid)",
                        "fee models on the documented extension points: ticket charge, ZeroFeeModel / PercentFeeModel "
                        "subclasses that use the optional broker argument",
                        "asset symbols as str-mixin Enum members / numpy.str_ (some runs)"]},
    "data": {"real": ["CSVDailyBarDataSource", "BacktestDataHandler", "pandas CSV reader"],
             "stub": []},
    "clock": {"real": ["DailyBusinessDaySimulationEngine", "SimulationEvent", "WeeklyRebalance",
                       "DailyRebalance", "EndOfMonthRebalance", "BuyAndHoldRebalance"], "stub": []},
    "signal": {"real": ["MomentumSignal", "SMASignal", "VolatilitySignal", "AssetPriceBuffers",
                        "SignalsCollection", "DynamicUniverse", "StaticUniverse"],
               "stub": ["QuoteBook data handler"]},
    "session": {"real": ["BacktestTradingSession", "DailyBusinessDaySimulationEngine", "rebalance schedules",
                         "QuantTradingSystem", "PortfolioConstructionModel", "order sizers",
                         "FixedWeightPortfolioOptimiser", "ExecutionHandler", "SimulatedBroker stack",
                         "SimulatedExchange", "CSVDailyBarDataSource", "BacktestDataHandler", "universes",
                         "FixedSignalsAlphaModel", "SingleSignalAlphaModel", "SignalsCollection", "signals"],
                "stub": ["three signal-driven alpha models written for the harness (the repo ships none "
                         "outside examples/)",
                         "custom Universe subclasses (members leave; list / tuple / generator returns; forward-only "
                         "listing calendar)",
                         "FeeModel subclasses (commission-only, stamp duty, volume tiers counted on fills)"]},
    "rebal": {"real": ["PortfolioConstructionModel", "DollarWeightedCashBufferedOrderSizer",
                       "LongShortLeveragedOrderSizer", "FixedWeightPortfolioOptimiser",
                       "EqualWeightPortfolioOptimiser", "ExecutionHandler", "MarketOrderExecutionAlgorithm",
                       "SimulatedBroker stack", "SimulatedExchange", "StaticUniverse", "DynamicUniverse"],
              "stub": ["QuoteBook data handler", "scripted alpha model",
                       "scripted universe returning a list, tuple or generator (some runs)",
                       "FeeModel subclasses using the optional broker argument (some runs)"]},
}
REAL_STUB["pair"] = REAL_STUB["session"]
REAL_STUB["repeat"] = REAL_STUB["session"]


def write_evidence(prop, tier, master, totals, wall, n_viol, n_known, det_checked, budget, workers):
    d = os.environ.get("VERIF_EVIDENCE_DIR") or os.path.join(boot.VERIF_DIR, "evidence")
    os.makedirs(d, exist_ok=True)
    distinct = sum(len(s) for s in totals["sigs"].values())
    rules = []
    for wname in totals["per_world"]:
        w = world(wname)
        rules.append("%s: %s" % (wname, getattr(w, "RULE", "abstract-state signature")))
    probes = dict(totals["probes"])
    paths = sorted(k[8:] for k in probes if k.startswith("c03path:"))
    probes = {k: v for k, v in probes.items() if not k.startswith("c03path:")}
    cov = {
        "evaluations": int(totals["runs"]),
        "distinct_nontrivial": int(distinct),
        "rule": ("Each evaluation is one seeded simulated run (run_seed = sha256(VERIF_SEED/property/world/i)); "
                 "a run is non-trivial if it evaluated at least one oracle of this property; distinct = number "
                 "of distinct abstract-state signatures (crc32; collisions only under-count) reached in "
                 "non-trivial runs. Signatures: " + " || ".join(rules)),
        "samples": totals["samples"][:3],
        "nontrivial_runs": int(totals["nontrivial_runs"]),
        "oracle_evaluations": int(totals["judged"]),
        "op_kind_bigrams": int(sum(len(s) for s in totals["bigrams"].values())),
        "fault_kinds_fired": dict(sorted(totals["faults"].items())),
        "probes": dict(sorted(probes.items())),
        "runs_per_world": {k: v["runs"] for k, v in totals["per_world"].items()},
        "runs_per_hour": int(totals["runs"] / max(wall, 1e-6) * 3600),
        "seeds_per_hour": int(totals["runs"] / max(wall, 1e-6) * 3600),
        "simulated_days_covered": round(totals["sim_seconds"] / 86400.0, 1),
        "simulated_events": int(totals["events"]),
        "determinism_digests_rechecked_in_fresh_interpreters": int(det_checked),
        "components": {k: REAL_STUB.get(k, {}) for k in totals["per_world"]},
        "workers": workers,
        "budget_s": budget,
        "known_findings_reported": int(n_known),
        "repo_commit": boot.repo_commit(),
        "qstrader_file": boot.qstrader_file(),
        "exhaustive": False,
    }
    if paths:
        cov["c03_sign_pattern_paths_up_to_4_fills"] = paths
    doc = {
        "property_id": prop,
        "tier": tier,
        "seed": int(master),
        "level": level_of(prop),
        "coverage": cov,
        "assumptions": [
            "sampled, not exhaustive: a clean batch is evidence, not proof",
            "bounds: see DESIGN.md section 7 and the generator of each world",
            "reference models (ledger, price model, calendar, backtester) are trusted",
        ],
        "wall_s": round(wall, 2),
        "violations": int(n_viol),
    }
    path = os.path.join(d, "%s.json" % prop)
    with open(path, "w") as f:
        f.write(json.dumps(json.loads(jdump(doc)), indent=1, sort_keys=True))
    return path

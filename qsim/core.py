"""Run context, violations, seed derivation, float rules and time helpers shared by all worlds."""
import hashlib
import json
import math
import random
from collections import Counter
from fractions import Fraction


def run_seed(master, prop, world, i):
    h = hashlib.sha256(("%d/%s/%s/%d" % (master, prop, world, i)).encode()).hexdigest()
    return int(h[:16], 16)


def rng_for(seed):
    return random.Random(seed)


class StopRun(Exception):
    """Raised inside a run once every focused property has failed (models are out of sync)."""


class Ctx(object):
    """Per-run context: event-log digest, fault/probe counters, abstract-state signatures, violations.

    Logging never draws randomness and never reads a clock.
    """

    def __init__(self, focus, trace=False):
        self.focus = set(focus)
        self.dead = set()
        self.violations = []
        self.faults = Counter()
        self.probes = Counter()
        self.sigs = set()
        self.bigrams = set()
        self._h = hashlib.sha256()
        self.trace = [] if trace else None
        self.step = -1
        self.judged = 0
        self.sim_seconds = 0
        self.n_events = 0

    # -- log ---------------------------------------------------------------
    def event(self, *parts):
        line = "|".join(_s(p) for p in parts)
        self._h.update(line.encode())
        self._h.update(b"\n")
        self.n_events += 1
        if self.trace is not None:
            self.trace.append(line)

    def digest(self):
        if getattr(self, "_digest_override", None):
            return self._digest_override
        return self._h.hexdigest()

    # -- counters ----------------------------------------------------------
    def fault(self, kind, n=1):
        self.faults[kind] += n

    def probe(self, name, n=1):
        self.probes[name] += n

    def sig(self, s):
        self.sigs.add(s)

    # -- judging -----------------------------------------------------------
    def judging(self, prop):
        return prop in self.focus and prop not in self.dead

    def ok(self, prop):
        """Count one evaluated oracle."""
        self.judged += 1

    def violate(self, prop, oracle, detail, sig=None):
        if prop not in self.focus or prop in self.dead:
            return
        try:
            detail = json.loads(jdump(detail))      # plain JSON types only: results cross process boundaries
        except Exception:
            detail = {"unserialisable_detail": repr(detail)[:500]}
        v = {"property": prop, "oracle": oracle, "step": self.step,
             "detail": detail, "sig": sig if sig is not None else oracle}
        self.violations.append(v)
        self.event("VIOLATION", prop, oracle, self.step)
        self.dead.add(prop)
        if self.dead >= self.focus:
            raise StopRun()

    def check(self, prop, cond, oracle, detail_fn=None, sig=None):
        if prop not in self.focus or prop in self.dead:
            return True
        self.judged += 1
        if cond:
            return True
        detail = detail_fn() if callable(detail_fn) else detail_fn
        self.violate(prop, oracle, detail, sig)
        return False

    @classmethod
    def rebuild(cls, focus, res, lines, trace=False):
        """Reconstruct a context from the picklable result of a run executed in another process."""
        c = cls(focus, trace=trace)
        for line in lines:
            c._h.update(line.encode())
            c._h.update(b"\n")
            c.n_events += 1
            if c.trace is not None:
                c.trace.append(line)
        c.violations = list(res["violations"])
        c.faults.update(res["faults"])
        c.probes.update(res["probes"])
        c.sigs = set(res["sigs"])
        c.bigrams = set(res["bigrams"])
        c.judged = res["judged"]
        c.sim_seconds = res["sim_seconds"]
        if not lines:
            c._digest_override = res["digest"]
            c.n_events = res.get("events", 0)
        return c

    def result(self):
        return {
            "violations": self.violations,
            "faults": dict(self.faults),
            "probes": dict(self.probes),
            "sigs": sorted(self.sigs),
            "bigrams": sorted(self.bigrams),
            "digest": self.digest(),
            "judged": self.judged,
            "sim_seconds": self.sim_seconds,
            "events": self.n_events,
        }


def _s(p):
    if isinstance(p, float):
        return fhex(p)
    return str(p)


# -- float rules (DESIGN section 3) ------------------------------------------

def fhex(x):
    """Bit-exact rendering of a number (floats via float.hex, NaN canonical)."""
    if x is None:
        return "None"
    try:
        xf = float(x)
    except Exception:
        return repr(x)
    if xf != xf:
        return "nan"
    if isinstance(x, (int,)) and not isinstance(x, bool):
        return str(x)
    return xf.hex()


def close(impl, ref, scale=0.0, rel=1e-9, abs_=1e-9):
    """Rule 1: |impl - ref| <= rel*scale + abs_ ; NaN only equals NaN."""
    try:
        a = float(impl)
        b = float(ref)
    except Exception:
        return False
    if a != a or b != b:
        return (a != a) and (b != b)
    if math.isinf(a) or math.isinf(b):
        return a == b
    return abs(a - b) <= rel * max(abs(float(scale)), abs(b)) + abs_


def frac(x):
    """Exact rational value of a float/int input."""
    if isinstance(x, Fraction):
        return x
    if isinstance(x, int):
        return Fraction(x)
    return Fraction(float(x))


def cents_ok(recorded, exact, scale=0.0):
    """Rule 2: `recorded` is a 2-decimal number within half a cent (+ rule 1) of `exact`."""
    try:
        r = float(recorded)
    except Exception:
        return False
    if r != r:
        return False
    if abs(r * 100.0 - round(r * 100.0)) > 1e-6 * max(1.0, abs(r)):
        return False
    return abs(r - float(exact)) <= 0.005 + 1e-9 * max(abs(float(scale)), abs(float(exact))) + 1e-9


def near_integer(x, rel=1e-9):
    r = round(x)
    return abs(x - r) <= rel * max(1.0, abs(x))


def jdump(obj):
    return json.dumps(obj, sort_keys=True, separators=(",", ":"), default=_jd)


def _jd(o):
    if isinstance(o, Fraction):
        return float(o)
    if isinstance(o, (set, frozenset)):
        return sorted(o)
    try:
        import numpy as np
        if isinstance(o, np.integer):
            return int(o)
        if isinstance(o, np.floating):
            return float(o)
    except Exception:
        pass
    return repr(o)


# -- time helpers -------------------------------------------------------------
# Simulated instants are integer epoch seconds (UTC) in plans; pandas Timestamps at the seams.

DAY = 86400
OPEN_S = 14 * 3600 + 30 * 60
CLOSE_S = 21 * 3600


def ts(sec):
    import pandas as pd
    return pd.Timestamp(int(sec), unit="s", tz="UTC")


def epoch(t):
    """Epoch seconds of a tz-aware pandas Timestamp (second resolution)."""
    try:
        return int(t.value // 1000000000)
    except OverflowError:
        # beyond the nanosecond range (before 1678 / after 2262): exact integer arithmetic in microseconds
        return int(t.as_unit("us").asm8.view("i8")) // 1000000


def weekday(sec):
    # 1970-01-01 was a Thursday (weekday 3)
    return ((sec // DAY) + 3) % 7


def is_open_ref(sec):
    """Reference exchange hours: Monday-Friday, 14:30 <= t < 21:00 UTC."""
    if weekday(sec) > 4:
        return False
    tod = sec % DAY
    return OPEN_S <= tod < CLOSE_S


def day_of(sec):
    return sec // DAY


def iso(sec):
    import datetime
    return datetime.datetime.fromtimestamp(int(sec), datetime.timezone.utc).strftime("%Y-%m-%d %H:%M:%S")


def raised_in_repo(exc):
    """True if the innermost harness-or-repo frame of the traceback belongs to qstrader (the code under
    test), i.e. the exception originated below a public API call and not in the harness itself."""
    import os
    import traceback
    here = os.path.dirname(os.path.abspath(__file__))
    frames = traceback.extract_tb(exc.__traceback__)
    for fr in reversed(frames):
        fn = os.path.abspath(fr.filename)
        if fn.startswith(here + os.sep):
            return False
        if (os.sep + "qstrader" + os.sep) in fn:
            return True
    return False


HOST_TZS = [None, None, None, None, "GMT0BST,M3.5.0/1,M10.5.0/2", "EST5EDT,M3.2.0,M11.1.0", "JST-9", "NST3:30NDT,M3.2.0,M11.1.0"]


def finish_plan(plan, seed):
    """Host-process state that is part of every plan (drawn from the run seed, not from the world's generator
    stream): standard-library logging switched off by the host application or not, the local time zone of the
    process, and - outside REPEAT - an interpreter that strips assert statements (python -O)."""
    seed = int(seed)
    plan["host_logging"] = "on" if (seed >> 7) % 3 == 0 else "off"
    plan["host_tz"] = HOST_TZS[(seed >> 11) % len(HOST_TZS)]
    plan["host_optimize"] = 1 if ((seed >> 17) % 10 == 0 and plan.get("world") != "repeat") else 0
    # process-wide library state a host application may legitimately have changed before calling the library
    plan["host_warnings"] = "error" if (seed >> 21) % (3 if plan.get("world") == "repeat" else 6) == 0 else None   # python -W error
    plan["host_np_err"] = "raise" if (seed >> 25) % 6 == 0 else None              # numpy.seterr(all='raise')
    plan["host_decimal"] = [None, None, None, None, None, "prec6", "round_down", "trap_inexact"][(seed >> 29) % 8]
    plan["host_pandas"] = [None, None, None, None, "dayfirst", "copy_on_write"][(seed >> 33) % 6]
    if isinstance(plan.get("cfg"), dict):
        for k in HOST_KEYS:
            plan["cfg"][k] = plan[k]
    return plan


HOST_KEYS = ("host_logging", "host_tz", "host_optimize", "host_warnings", "host_np_err", "host_decimal", "host_pandas")
HOST_PLAIN = {"host_logging": "off", "host_tz": None, "host_optimize": 0, "host_warnings": None, "host_np_err": None,
              "host_decimal": None, "host_pandas": None}


_OPTIMIZED = [False]


_HOST_NOW = {}


def apply_host_state(d):
    """Every run executes in its own child process, so process-global state is set from the plan.  Only what
    differs from the state this process is known to be in is touched."""
    if not _HOST_NOW:
        _HOST_NOW.update(dict((k, "?") for k in HOST_PLAIN))       # unknown: set everything once
    want = dict((k, d.get(k, HOST_PLAIN[k])) for k in HOST_PLAIN)
    if want["host_logging"] != _HOST_NOW["host_logging"]:
        import logging
        logging.disable(logging.NOTSET if want["host_logging"] == "on" else logging.CRITICAL)
    if want["host_tz"] != _HOST_NOW["host_tz"]:
        import os
        import time
        os.environ["TZ"] = want["host_tz"] or "UTC"
        time.tzset()
    if want["host_warnings"] != _HOST_NOW["host_warnings"]:
        import warnings
        warnings.simplefilter("error" if want["host_warnings"] == "error" else "ignore")
    if want["host_np_err"] != _HOST_NOW["host_np_err"]:
        import numpy as np
        if want["host_np_err"] == "raise":
            # division by zero, invalid operations and overflow raise.  Underflow stays ignored: with it raised the
            # unchanged code itself refuses legal subnormal weights (np.float64 equity times 5e-324), i.e. that
            # host setting is outside the domain in which the properties hold
            np.seterr(divide="raise", over="raise", invalid="raise", under="ignore")
        else:
            np.seterr(divide="warn", over="warn", under="ignore", invalid="warn")
    if want["host_decimal"] != _HOST_NOW["host_decimal"]:
        import decimal
        hd = want["host_decimal"]
        ctxd = decimal.Context(prec=28, rounding=decimal.ROUND_HALF_EVEN,
                               traps=[decimal.InvalidOperation, decimal.DivisionByZero, decimal.Overflow])
        if hd == "prec6":
            ctxd.prec = 6
        elif hd == "round_down":
            ctxd.rounding = decimal.ROUND_DOWN
        elif hd == "trap_inexact":
            ctxd.traps[decimal.Inexact] = True
        decimal.setcontext(ctxd)
    if want["host_pandas"] != _HOST_NOW["host_pandas"]:
        import pandas as pd
        hp = want["host_pandas"]
        pd.set_option("display.date_dayfirst", hp == "dayfirst")
        try:
            pd.set_option("mode.copy_on_write", hp == "copy_on_write")
        except Exception:
            pass
    for k in HOST_PLAIN:
        if k != "host_optimize":
            _HOST_NOW[k] = want[k]
    from .isolate import THROWAWAY
    if want["host_optimize"] and THROWAWAY[0] and not _OPTIMIZED[0]:
        _OPTIMIZED[0] = True
        reload_repo_without_asserts()


def reload_repo_without_asserts():
    """Re-import every qstrader module compiled as `python -O` would compile it (assert statements and
    `if __debug__` blocks removed).  Only in a throw-away process."""
    import importlib
    import importlib.machinery
    import sys

    class _OptLoader(importlib.machinery.SourceFileLoader):
        def get_code(self, fullname):
            path = self.get_filename(fullname)
            return compile(self.get_data(path), path, "exec", dont_inherit=True, optimize=1)

    names = sorted(n for n in sys.modules if n == "qstrader" or n.startswith("qstrader."))
    was_printing = None
    try:
        was_printing = sys.modules["qstrader.settings"].PRINT_EVENTS
    except Exception:
        pass
    for n in names:
        del sys.modules[n]
    hook = importlib.machinery.FileFinder.path_hook((_OptLoader, [".py"]))
    sys.path_hooks.insert(0, hook)
    sys.path_importer_cache.clear()
    try:
        for n in names:
            importlib.import_module(n)
    finally:
        sys.path_hooks.remove(hook)
        sys.path_importer_cache.clear()
    if was_printing is not None:
        sys.modules["qstrader.settings"].PRINT_EVENTS = was_printing

"""Adversarial simulated instants (integer epoch seconds, UTC) for the scheduler-driven worlds."""
from .core import DAY, OPEN_S, CLOSE_S, weekday

# 2015-01-01 .. 2024-12-31
T_MIN = 1420070400
T_MAX = 1735603200


def next_tod(now, tod, wd=None, strict=False):
    """Smallest instant >= now (> now if strict) with time-of-day `tod` (and weekday `wd` if given)."""
    d = now // DAY
    for k in range(0, 16):
        t = (d + k) * DAY + tod
        if t < now or (strict and t == now):
            continue
        if wd is not None and weekday(t) != wd:
            continue
        return t
    raise AssertionError("next_tod")


def start_instant(rng):
    r = rng.random()
    if r < 0.06:
        # around a leap day
        y = rng.choice([2016, 2020, 2024])
        import calendar
        import datetime
        base = calendar.timegm(datetime.datetime(y, 2, 27 + rng.randrange(0, 3)).timetuple())
    elif r < 0.14:
        # around a year end
        import calendar
        import datetime
        y = rng.randrange(2015, 2024)
        base = calendar.timegm(datetime.datetime(y, 12, 28 + rng.randrange(0, 4)).timetuple())
    else:
        base = (rng.randrange(T_MIN, T_MAX) // DAY) * DAY
    tod = rng.choice([0, 0, 9 * 3600 + 15 * 60, OPEN_S - 1, OPEN_S, OPEN_S + 1, 17 * 3600,
                      CLOSE_S - 1, CLOSE_S, 23 * 3600 + 59 * 60])
    return base + tod


TICK_KINDS = ("dup", "secs", "hours", "days", "open", "open_m1", "open_p1", "close", "close_m1",
              "close_p1", "sat", "sun", "fri_close_m1", "fri_close", "mon_open_m1", "mon_open",
              "inhours", "overnight")


def next_instant(rng, now, kind=None):
    """Draw the next (non-regressing) tick instant.  Returns (kind, t >= now)."""
    if kind is None:
        kind = rng.choice(TICK_KINDS)
    if kind == "dup":
        t = now
    elif kind == "secs":
        t = now + rng.randrange(1, 3600)
    elif kind == "hours":
        t = now + rng.randrange(3600, DAY)
    elif kind == "days":
        t = now + rng.randrange(DAY, 3 * DAY + 1)
    elif kind == "open":
        t = next_tod(now, OPEN_S, strict=rng.random() < 0.5)
    elif kind == "open_m1":
        t = next_tod(now, OPEN_S - 1)
    elif kind == "open_p1":
        t = next_tod(now, OPEN_S + 1)
    elif kind == "close":
        t = next_tod(now, CLOSE_S)
    elif kind == "close_m1":
        t = next_tod(now, CLOSE_S - 1)
    elif kind == "close_p1":
        t = next_tod(now, CLOSE_S + 1)
    elif kind == "sat":
        t = next_tod(now, rng.choice([OPEN_S, 15 * 3600, CLOSE_S - 1]), wd=5)
    elif kind == "sun":
        t = next_tod(now, rng.choice([OPEN_S, 15 * 3600, CLOSE_S - 1]), wd=6)
    elif kind == "fri_close_m1":
        t = next_tod(now, CLOSE_S - 1, wd=4)
    elif kind == "fri_close":
        t = next_tod(now, CLOSE_S, wd=4)
    elif kind == "mon_open_m1":
        t = next_tod(now, OPEN_S - 1, wd=0)
    elif kind == "mon_open":
        t = next_tod(now, OPEN_S, wd=0)
    elif kind == "inhours":
        t = next_inhours(rng, now)
    elif kind == "overnight":
        t = next_tod(now, rng.choice([0, 3600, 6 * 3600, 22 * 3600, 23 * 3600 + 59 * 60]), strict=True)
    else:
        raise AssertionError(kind)
    return kind, t


def next_inhours(rng, now):
    """An instant >= now that lies inside exchange hours on a weekday."""
    for k in range(0, 10):
        d = now // DAY + k
        base = d * DAY
        if weekday(base) > 4:
            continue
        lo = max(now, base + OPEN_S)
        hi = base + CLOSE_S - 1
        if lo <= hi:
            r = rng.random()
            if r < 0.25:
                return lo
            if r < 0.35:
                return hi
            return rng.randrange(lo, hi + 1)
    raise AssertionError("next_inhours")

"""Delta-debugging minimisation of a failing plan (DESIGN 2.6).

A candidate is accepted only if the *same* (property, oracle) fails.  Bounded by a number of candidate
executions and by wall-clock (the wall clock is read by the driver only, never by a run).
"""
import copy
import time


def _execute(world, plan, focus):
    """Execute a candidate the way the batch does: in a forked child for worlds that isolate their runs, so that
    state leaked by one failing candidate cannot make every later candidate fail as well."""
    if getattr(world, "ISOLATE", None) == "fork":
        from .isolate import forked
        from .core import Ctx

        def job():
            return world.execute(plan, focus).result()
        return Ctx.rebuild(focus, forked(job), [])
    return world.execute(plan, focus)


def _fails(world, plan, focus, target):
    try:
        ctx = _execute(world, plan, focus)
    except Exception:
        return None
    for v in ctx.violations:
        if v["property"] == target[0] and v["oracle"] == target[1]:
            return v
    return None


def minimise(world, plan, focus, violation, max_execs=400, max_seconds=60.0):
    target = (violation["property"], violation["oracle"])
    if violation["oracle"] == "run_did_not_terminate_within_the_wall_limit":
        return copy.deepcopy(plan), violation, 0        # every candidate would cost the whole wall limit
    t0 = time.monotonic()
    execs = [0]

    def budget_left():
        return execs[0] < max_execs and (time.monotonic() - t0) < max_seconds

    def test(p):
        execs[0] += 1
        return _fails(world, p, focus, target)

    best = copy.deepcopy(plan)
    best_v = violation
    keys = getattr(world, "SHRINK_LISTS", ("ops",))
    for key in keys:
        items = best.get(key)
        if not isinstance(items, list) or len(items) <= 1:
            continue
        # the failing step bounds the useful prefix
        step = best_v.get("step")
        if key == "ops" and isinstance(step, int) and 0 <= step < len(items) - 1:
            cand = copy.deepcopy(best)
            cand[key] = items[:step + 1]
            v = test(cand)
            if v is not None:
                best, best_v = cand, v
                items = best[key]
        n = 2
        while len(items) >= 2 and budget_left():
            chunk = max(1, len(items) // n)
            reduced = False
            i = 0
            while i < len(items) and budget_left():
                cand_items = items[:i] + items[i + chunk:]
                if not cand_items:
                    i += chunk
                    continue
                cand = copy.deepcopy(best)
                cand[key] = cand_items
                v = test(cand)
                if v is not None:
                    best, best_v = cand, v
                    items = best[key]
                    reduced = True
                else:
                    i += chunk
            if not reduced:
                if chunk == 1:
                    break
                n = min(len(items), n * 2)
            else:
                n = max(2, n - 1)
    # host-process state that turns out not to matter is put back to the plain default
    from .core import HOST_PLAIN
    for key, plain in sorted(HOST_PLAIN.items()):
        if not budget_left():
            break
        if best.get(key, plain) != plain:
            cand = copy.deepcopy(best)
            cand[key] = plain
            if isinstance(cand.get("cfg"), dict):
                cand["cfg"][key] = plain
            v = test(cand)
            if v is not None:
                best, best_v = cand, v
    # argument simplification
    progress = True
    while progress and budget_left():
        progress = False
        simp = getattr(world, "simplifications", None)
        if simp is None:
            break
        for cand in simp(best):
            if not budget_left():
                break
            v = test(cand)
            if v is not None:
                best, best_v = cand, v
                progress = True
                break
    return best, best_v, execs[0]

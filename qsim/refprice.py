"""Point-in-time reference price model: the C06 sentence, literally.

observations of an asset, in time order: (day+14:30, open'), (day+21:00, close'); with adjustment
open' = Open * Adj/Close and close' = Adj Close; a missing observation takes the previous one; the
answer at t is the last observation at or before t, NaN if there is none.  bid = ask = mid.
"""
import bisect
import math

from .core import DAY, OPEN_S, CLOSE_S

NAN = float("nan")


def _isnan(x):
    return x is None or x != x


class RefPrices(object):
    def __init__(self, market):
        self.adjust = market["adjust"]
        self.times = {}
        self.vals = {}
        for sym, a in market["assets"].items():
            if a.get("removed"):
                continue
            obs = []
            for r in a["rows"]:
                d, o, _h, _l, c, adj = r[0], r[1], r[2], r[3], r[4], r[5]
                if self.adjust:
                    if _isnan(o) or _isnan(c) or _isnan(adj):
                        op = NAN
                    else:
                        # IEEE semantics for a bar a vendor wrote as zeros: 0/0 is "missing", x/0 is infinite
                        ratio = (adj / c) if c != 0 else (NAN if adj == 0 else math.copysign(math.inf, adj))
                        op = ratio * o
                    cl = NAN if _isnan(adj) else float(adj)
                else:
                    op = NAN if _isnan(o) else float(o)
                    cl = NAN if _isnan(c) else float(c)
                obs.append((d * DAY + OPEN_S, op))
                obs.append((d * DAY + CLOSE_S, cl))
            obs.sort(key=lambda x: x[0])
            last = NAN
            ts_, vs_ = [], []
            for t, v in obs:
                if not _isnan(v):
                    last = v
                ts_.append(t)
                vs_.append(last)
            self.times["EQ:" + sym] = ts_
            self.vals["EQ:" + sym] = vs_

    def knows(self, asset):
        return asset in self.times

    def price(self, asset, t):
        ts_ = self.times.get(asset)
        if ts_ is None:
            return NAN
        i = bisect.bisect_right(ts_, t) - 1
        if i < 0:
            return NAN
        return self.vals[asset][i]

    def first_time(self, asset):
        ts_ = self.times.get(asset)
        return ts_[0] if ts_ else None

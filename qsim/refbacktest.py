"""Reference backtester: the documented trading rules applied independently (C08), plus the sizing
rules shared with the C10/C11 monitors.  Plain Python, exact rational arithmetic on the float inputs.

It runs in lock-step with the recorded implementation run so that rule 3 (integer boundaries) can
adopt the implementation's choice where both neighbours are acceptable.
"""
import math
from fractions import Fraction

from .core import close, frac, near_integer, is_open_ref, iso, DAY, OPEN_S, CLOSE_S
from . import calendar_ref as cal
from .refprice import RefPrices

F0 = Fraction(0)


def fee_rate(cfg):
    fee = cfg["fee"]
    if fee["kind"] == "zero":
        return F0
    if fee["kind"] in ("subzero", "tiered"):
        return frac(fee["c"])
    if fee["kind"] == "subpct":
        return frac(fee["c"]) + frac(fee["t2"])
    return frac(fee["c"]) + frac(fee["t"])


def universe_at(cfg, t):
    u = cfg["universe"]
    if u["kind"] == "static":
        return list(u["assets"])
    if u["kind"] == "leaving":
        return [a for a in u["assets"] if a not in u["leave"] or t < u["leave"][a]]
    return [a for a, e in u["entries"].items() if e is not None and e <= t]


def alpha_weights(cfg, t):
    a = cfg["alpha"]
    if a["kind"] == "fixed":
        return dict(a["weights"])
    if a["kind"] == "single":
        return dict((x, a["signal"]) for x in universe_at(cfg, t))
    return None


def floor_cands(x):
    """Acceptable values of floor(x) under rule 3."""
    xf = float(x)
    base = math.floor(x)
    if near_integer(xf):
        r = int(round(xf))
        return set([r - 1, r, base])
    return set([base])


def trunc_cands(x):
    """Acceptable values of trunc-toward-zero(x) under rule 3."""
    xf = float(x)
    base = int(x) if x >= 0 else -int(-x)
    if near_integer(xf):
        r = int(round(xf))
        if r > 0:
            return set([r - 1, r, base])
        if r < 0:
            return set([r, r + 1, base])
        return set([0])
    return set([base])


def isclose0(x):
    return abs(float(x)) <= 1e-8


def size_long_only(E, b, rate, weights, price_of):
    """Reference long-only sizing. Returns {asset: (candidate set, allocation a, x)}."""
    ws = sum((frac(w) for w in weights.values()), F0)
    out = {}
    budget = frac(E) * (1 - frac(b))
    for a in sorted(weights):
        w = frac(weights[a])
        wn = w if isclose0(ws) else w / ws
        alloc = budget * wn
        after = alloc - rate * abs(alloc)
        p = price_of(a)
        x = after / frac(p)
        out[a] = (floor_cands(x), alloc, x)
    return out


def size_long_short(E, L, rate, weights, price_of):
    ws = sum((abs(frac(w)) for w in weights.values()), F0)
    out = {}
    for a in sorted(weights):
        w = frac(weights[a])
        wn = w if isclose0(ws) else w * frac(L) / ws
        alloc = frac(E) * wn
        after = alloc - rate * abs(alloc)
        p = frac(price_of(a))
        cands = set()
        for D in trunc_cands(after):
            cands |= trunc_cands(Fraction(D) / p)
        out[a] = (cands, alloc, after / p)
    return out


def commission_cands(rate, price, qty):
    x = float(price) * qty
    r = round(x)
    cons = set([abs(r)])
    if abs(abs(x - math.floor(x)) - 0.5) < 1e-6:
        cons |= set([abs(math.floor(x)), abs(math.ceil(x))])
    return [rate * c for c in sorted(cons)]


def judge_c08(cfg, market, out, ctx):
    """Compare the recorded session with the documented rules."""
    P = "C08"
    ref = RefPrices(market)
    start, end = cfg["start"], cfg["end"]
    events = cal.engine_events(start, end)
    sched = set(cal.schedule(cfg["rebalance"], start, end, wd=cfg.get("weekday")))
    burn = cfg["burn_in"]
    rate = fee_rate(cfg)
    tier = cfg["fee"] if cfg["fee"]["kind"] == "tiered" else None
    n_fills = [0]

    def rate_now():
        """The rate the fee model quotes at this point (a tiered model: by the number of fills so far)."""
        if tier is None:
            return rate
        return frac(tier["c"]) if n_fills[0] < tier["k"] else frac(tier["c2"])
    rec = out.rec
    if out.ctor_exc is not None or out.exc is not None:
        ctx.violate(P, "valid_backtest_raised", {"ctor": out.ctor_exc, "run": out.exc,
                                                 "at": iso(out.exc_at) if out.exc_at else None},
                    sig="valid_backtest_raised:%s" % ((out.ctor_exc or out.exc)[0],))
        return
    cash = frac(cfg["initial_cash"])
    gross = abs(cash)
    hold = {}
    pending = []
    exp_fills = {}
    exp_equity = []
    pcm_i = 0
    impl_by_t = {}
    for x in rec.txns:
        impl_by_t.setdefault(x["t"], []).append(x)

    def price(a, t):
        return ref.price(a, t)

    def mv(t):
        tot = F0
        for a, q in hold.items():
            p = price(a, t)
            if p != p:
                return None
            tot += frac(p) * q
        return tot

    def fill(t, a, q):
        nonlocal cash, gross
        p = price(a, t)
        cands = commission_cands(rate_now(), p, q)
        n_fills[0] += 1
        # lock-step: adopt the implementation's commission when it is one of the acceptable values
        comm = cands[0]
        for x in impl_by_t.get(t, []):
            if x["asset"] == a and x["qty"] == q:
                for c in cands:
                    if close(x["comm"], c, scale=float(c)):
                        comm = c
                break
        exp_fills.setdefault(t, []).append((a, q, p, [float(c) for c in cands]))
        cash -= frac(p) * q + comm
        gross += abs(frac(p) * q) + comm
        hold[a] = hold.get(a, 0) + q
        if hold[a] == 0:
            del hold[a]

    for (t, typ) in events:
        if typ == "market_open" and pending:
            sells = [o for o in pending if o[1] < 0]
            buys = [o for o in pending if o[1] > 0]
            for a, q in sells + buys:
                fill(t, a, q)
            pending = []
        if t in sched and (burn is None or t >= burn):
            m = mv(t)
            if m is None:
                ctx.probe("c08_out_of_domain_nan_mark")
                return
            E = cash + m
            if E <= 0:
                # the documented rules say nothing special here: the allocation is equity x weight whatever its sign
                ctx.probe("c08_rebalance_with_nonpositive_equity")
            w = alpha_weights(cfg, t)
            full = sorted(set(hold) | set(universe_at(cfg, t)))
            fw = dict((a, 0.0) for a in full)
            fw.update(w)
            if any(price(a, t) != price(a, t) for a in fw):
                ctx.probe("c08_out_of_domain_nan_price")
                return
            if pcm_i >= len(rec.sizer):
                ctx.violate(P, "scheduled_rebalance_did_not_size", {"t": iso(t), "rebalances_seen": len(rec.sizer)})
                return
            srec = rec.sizer[pcm_i]
            pcm_i += 1
            if srec["t"] != t or srec["result"] is None:
                ctx.violate(P, "rebalance_at_unexpected_instant", {"expected": iso(t), "got": iso(srec["t"]),
                                                                   "exc": srec["exc"]})
                return
            if cfg["long_only"]:
                sized = size_long_only(E, cfg["cash_buffer"], rate_now(), fw, lambda a: price(a, t))
            else:
                sized = size_long_short(E, cfg["leverage"], rate_now(), fw, lambda a: price(a, t))
            if any(abs(float(v[2])) > 1e9 for v in sized.values()):
                # a book that has run away (leveraged and under water, rebalanced again and again): beyond 1e9
                # shares the implementation's float arithmetic and the exact reference part by whole shares
                ctx.probe("c08_out_of_domain_astronomic_quantity")
                return
            target = {}
            # an asset the sizer leaves out has no target, i.e. a target of zero; only quantities are judged
            stray = [a for a, q in srec["result"].items() if a not in sized and q != 0]
            if stray:
                ctx.violate(P, "target_for_asset_outside_the_weight_vector",
                            {"t": iso(t), "assets": stray, "impl": srec["result"], "ref": sorted(sized)})
                return
            for a in sorted(sized):
                cands, alloc, x = sized[a]
                qi = srec["result"].get(a, 0)
                if qi not in cands:
                    ctx.violate(P, "target_quantity_differs_from_documented_sizing",
                                {"t": iso(t), "asset": a, "impl": qi, "reference": sorted(cands),
                                 "equity": float(E), "allocation": float(alloc), "price": price(a, t),
                                 "x": float(x), "weights": fw, "long_only": cfg["long_only"]},
                                sig="target_quantity_differs_from_documented_sizing")
                    return
                if len(cands) > 1:
                    ctx.probe("floor_boundary_adoption")
                target[a] = qi
            ctx.ok(P)
            orders = [(a, target[a] - hold.get(a, 0)) for a in sorted(target) if target[a] - hold.get(a, 0) != 0]
            if is_open_ref(t):
                ctx.probe("rebalance_inside_exchange_hours")
                for a, q in orders:
                    fill(t, a, q)
            else:
                pending = orders
        if typ == "market_close" and (burn is None or t >= burn):
            m = mv(t)
            # the curve is the ACCOUNT's equity: a cash sleeve portfolio opened before the run is part of it
            exp_equity.append((t, None if m is None else cash + m + frac(cfg.get("sleeve") or 0)))
    # ---- fills, per instant, as multisets --------------------------------------------------
    for t in sorted(set(exp_fills) | set(impl_by_t)):
        e = sorted(exp_fills.get(t, []), key=lambda z: (z[0], z[1]))
        g = sorted(impl_by_t.get(t, []), key=lambda z: (z["asset"], z["qty"]))
        same = len(e) == len(g)
        if same:
            for (a, q, p, cc), x in zip(e, g):
                if not (x["asset"] == a and x["qty"] == q and close(x["price"], p, scale=abs(p), rel=1e-12, abs_=1e-12)
                        and any(close(x["comm"], c, scale=c) for c in cc)):
                    same = False
        if not ctx.check(P, same, "fills_differ_from_documented_rules",
                         lambda: {"t": iso(t), "reference": [(a, q, p, cc) for a, q, p, cc in e],
                                  "impl": [(x["asset"], x["qty"], x["price"], x["comm"]) for x in g]},
                         sig="fills_differ_from_documented_rules"):
            return
    if not ctx.check(P, pcm_i == len(rec.sizer), "rebalance_outside_schedule",
                     lambda: {"expected": pcm_i, "seen": len(rec.sizer),
                              "instants": [iso(s["t"]) for s in rec.sizer][:10]}):
        return
    # ---- final cash and holdings -----------------------------------------------------------
    ctx.check(P, close(out.cash, cash, scale=gross), "final_cash", lambda: {"impl": out.cash, "ref": float(cash)})
    ctx.check(P, dict((a, int(q)) for a, q in out.holdings.items()) == hold and
              all(float(q) == int(q) for q in out.holdings.values()), "final_holdings",
              lambda: {"impl": out.holdings, "ref": hold})
    # ---- daily equity ----------------------------------------------------------------------
    if not ctx.check(P, [t for t, _ in out.equity] == [t for t, _ in exp_equity], "equity_curve_instants",
                     lambda: {"impl": [iso(t) for t, _ in out.equity][:6], "ref": [iso(t) for t, _ in exp_equity][:6],
                              "n_impl": len(out.equity), "n_ref": len(exp_equity)}):
        return
    for (t, v), (_, want) in zip(out.equity, exp_equity):
        if want is None:
            ctx.probe("c08_equity_point_out_of_domain")
            continue
        if not ctx.check(P, close(v, want, scale=gross), "equity_point_differs",
                         lambda: {"t": iso(t), "impl": v, "ref": float(want)}, sig="equity_point_differs"):
            return

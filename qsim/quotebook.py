"""Scripted data-handler stub with bid != ask (BROKER / REBAL / SIGNAL worlds).

It implements the four price methods the broker, the sizers and the signals collection call on a
data handler.  Quotes are piecewise constant in simulated time: the scheduler sets them, queries
return the quote valid "now".  `nan_assets` makes an asset quote-less (REBAL fault).
"""
import math


class QuoteBook(object):
    def __init__(self, numpy_floats=False, numpy_ints=False, python_int_scale=None):
        # python_int_scale: an integer-tick venue quoting in a tiny currency unit - quotes are (large) Python ints
        self._pyint = python_int_scale
        self.q = {}
        self.queries = 0
        self._np = None
        self._ints = numpy_ints
        if numpy_floats or numpy_ints:
            import numpy as np
            self._np = np

    def _f(self, x):
        if self._pyint:
            return int(round(float(x) * self._pyint))
        if self._ints:
            return self._np.int64(int(x))      # whole prices served as numpy integers (an integer price column)
        if self._np is not None:
            return self._np.float64(x)
        return float(x)

    def set(self, asset, bid, ask):
        self.q[asset] = (self._f(bid), self._f(ask))

    def drop(self, asset):
        self.q.pop(asset, None)

    def bid_ask(self, asset):
        q = self.q.get(asset)
        if q is None:
            import numpy as np
            if getattr(self, "fresh_nan", False):
                # a NaN that is not the np.nan object (what a DataFrame cell or float('nan') gives)
                return (np.float64("nan"), float("nan"))
            # like the real handler: the numpy NaN singleton for "no quote"
            return (np.nan, np.nan)
        return q

    def mid(self, asset):
        b, a = self.bid_ask(asset)
        if self._pyint and asset in self.q:
            return (b + a) // 2                 # the handler's own mid: a whole tick inside the quote
        if self._ints and asset in self.q and (int(b) + int(a)) % 2 == 0:
            return self._np.int64((int(b) + int(a)) // 2)
        f = getattr(self, "mid_frac", 0.5)
        if f != 0.5 and asset in self.q and not self._ints:
            # a handler whose "mid" is its own figure (last trade, size-weighted ...) somewhere inside the quote
            return b + f * (a - b)
        return (b + a) / 2.0

    # -- data handler interface -------------------------------------------
    def get_asset_latest_bid_price(self, dt, asset_symbol):
        self.queries += 1
        return self.bid_ask(asset_symbol)[0]

    def get_asset_latest_ask_price(self, dt, asset_symbol):
        self.queries += 1
        return self.bid_ask(asset_symbol)[1]

    def get_asset_latest_bid_ask_price(self, dt, asset_symbol):
        self.queries += 1
        return self.bid_ask(asset_symbol)

    def get_asset_latest_mid_price(self, dt, asset_symbol):
        self.queries += 1
        return self.mid(asset_symbol)

"""qsim -- deterministic simulation with fault injection for qstrader (see /verif/DESIGN.md)."""
